// Plumbing suite (C04 / C07 / C08): the low-level entry point bxdecay0::genbbsub used directly, as examples/ex04 does,
// with ONE caller-owned bbpars block that lives through several configurations ("lives").
//
//   op life    cat level mode emin_keV emax_keV istart ; nuclide    (user sets ebb1/ebb2/toallevents, then the init call;
//                                                                    istart -1 = initialise only, 0 = initialise and generate one)
//   op pshoot  stream
//
// Oracles: every event is well-formed (C04 predicate); every event equals the one obtained from a brand-new bbpars
// block taken through this life only, with the same deviates (C07: no dependence on earlier lives); sanitizers (C08).
#include "configs.h"
#include "simrandom.h"
#include <bxdecay0/bb.h>
#include <bxdecay0/genbbsub.h>

namespace sim {
namespace {

struct Life { GenCfg cfg; int istart = -1; i64 init_stream = 0; };

struct Driver
{
  bxdecay0::bbpars * pars;
  Life life; bool ok = false; std::string err; EventRec first; bool has_first = false; u64 toall = 0;
  explicit Driver(bxdecay0::bbpars * p) : pars(p) {}
  void start(const Life & l)
  {
    life = l; ok = false; err.clear(); has_first = false;
    // what ex04 does at the start of a run: the user-facing fields of the block
    pars->ebb1 = l.cfg.emin_keV >= 0 ? l.cfg.emin_keV * 1e-3 : 0.0;
    pars->ebb2 = l.cfg.emax_keV >= 0 ? l.cfg.emax_keV * 1e-3 : 4.3;
    pars->toallevents = 1.0;
    SimRandom r(hmix(hstr("plumbing-init"), (u64)l.init_stream));
    r.begin_op(20000000);
    bxdecay0::event ev;
    int ier = 0;
    try {
      bxdecay0::genbbsub(r, ev, l.cfg.cat == 1 ? bxdecay0::GENBBSUB_I2BBS_DBD : bxdecay0::GENBBSUB_I2BBS_BACKGROUND, l.cfg.nuc, l.cfg.level, l.cfg.mode, l.istart, ier, *pars);
      if (ier != 0) { err = "ier=" + std::to_string(ier); return; }
      ok = true;
      toall = dbits(pars->toallevents);
      if (l.istart == bxdecay0::GENBBSUB_ISTART_INIT_GENERATE_ONE) { first = EventRec::of(ev); has_first = true; first_ev = ev; }
    } catch (SimBudget &) { err = "step budget"; }
    catch (std::exception & e) { err = e.what(); }
  }
  bxdecay0::event first_ev;
  bool shoot(i64 stream, bxdecay0::event & ev, std::string & e2, bool & budget)
  {
    budget = false;
    SimRandom r(hmix(hstr("plumbing-shot"), (u64)stream));
    r.begin_op(3000000);
    int ier = 0;
    try {
      ev.reset();
      bxdecay0::genbbsub(r, ev, life.cfg.cat == 1 ? bxdecay0::GENBBSUB_I2BBS_DBD : bxdecay0::GENBBSUB_I2BBS_BACKGROUND, life.cfg.nuc, life.cfg.level, life.cfg.mode,
                         bxdecay0::GENBBSUB_ISTART_GENERATE, ier, *pars);
      if (ier != 0) { e2 = "ier=" + std::to_string(ier); return false; }
      return true;
    } catch (SimBudget &) { budget = true; e2 = "step budget"; return false; }
    catch (std::exception & e) { e2 = e.what(); return false; }
  }
};

Outcome run_plumbing(const Plan & plan, const RunCtx & ctx)
{
  Outcome out; Trace tr;
  const bool c04 = ctx.prop == "C04", c07 = ctx.prop == "C07";
  bxdecay0::bbpars shared;                   // the caller's block: one for the whole run
  Driver used(&shared);
  std::unique_ptr<bxdecay0::bbpars> fresh;   // reference: a new block per life
  std::unique_ptr<Driver> ref;
  int lives = 0;
  for (size_t oi = 0; oi < plan.ops.size() && !out.violated(); oi++) {
    const Op & op = plan.ops[oi];
    if (op.k == "life") {
      Life l; l.cfg.cat = (int)op.arg(0, 1); l.cfg.level = (int)op.arg(1); l.cfg.mode = (int)op.arg(2); l.cfg.emin_keV = op.arg(3, -1); l.cfg.emax_keV = op.arg(4, -1);
      l.istart = (int)op.arg(5, -1); l.init_stream = op.arg(6, 0); l.cfg.nuc = op.str(0);
      used.start(l);
      fresh.reset(new bxdecay0::bbpars); ref.reset(new Driver(fresh.get())); ref->start(l);
      lives++;
      out.ctr["plumbing_lives"]++;
      if (lives > 1) out.ctr["probe_block_reused_for_another_configuration"]++;
      tr.adds("life"); tr.adds(l.cfg.key()); tr.add(used.ok);
      std::string what = "life #" + std::to_string(lives) + " (" + l.cfg.key() + ", istart " + std::to_string(l.istart) + ")";
      if (used.ok != ref->ok) {
        if (c07) out.fail("C07", "init-outcome-differs", "init-outcome-differs plumbing", what + ": initialisation " + (used.ok ? "succeeded" : "failed (" + used.err + ")")
                                                                                                   + " on the reused parameter block but " + (ref->ok ? "succeeds" : "fails (" + ref->err + ")") + " on a new one");
        continue;
      }
      if (!used.ok) { out.ctr["plumbing_init_refused"]++; continue; }
      if (c07 && used.toall != ref->toall) out.fail("C07", "toallevents-differs", "toallevents-differs plumbing", what + ": toallevents differs between the reused block and a new one");
      if (used.has_first) {
        std::string why = malformed_reason(used.first_ev, l.cfg.nuc);
        if (c04 && !why.empty()) {
          // same signature as the generator suites (a finding is the same finding through either entry point)
          std::string species;
          for (auto & q : used.first_ev.get_particles())
            if (!std::isfinite(q.get_px() + q.get_py() + q.get_pz()) || !std::isfinite(q.get_time())) { species = " species=" + std::to_string((int)q.get_code()); break; }
          std::string cls = l.cfg.cat == 2 ? "bkg" : "dbd-m" + std::to_string(l.cfg.mode) + (l.cfg.level > 0 ? "-exc" : "-gs") + (l.cfg.has_window() ? "-win" : "");
          out.fail("C04", "malformed-event", why + " nuclide=" + l.cfg.nuc + " cfg=" + cls + species, what + " [plumbing]: event of the initialise-and-generate call: " + why + ": " + used.first.brief());
        }
        if (c07 && ref->has_first && !(used.first == ref->first)) out.fail("C07", "event-differs", "event-differs plumbing nuclide=" + l.cfg.nuc, what + ": first event differs from a new block's: " + first_difference(used.first, ref->first));
      }
    } else if (op.k == "pshoot") {
      if (!used.ok || !ref || !ref->ok) { out.ctr["ops_skipped"]++; continue; }
      bxdecay0::event ev, ev2; std::string e1, e2; bool b1 = false, b2 = false;
      bool ok1 = used.shoot(op.arg(0), ev, e1, b1);
      bool ok2 = ref->shoot(op.arg(0), ev2, e2, b2);
      out.ctr["shots"]++;
      tr.adds("pshoot"); tr.add(ok1);
      std::string what = "op#" + std::to_string(oi) + " life #" + std::to_string(lives) + " (" + used.life.cfg.key() + ") stream " + std::to_string(op.arg(0));
      if (b1 && !b2 && c04) { out.fail("C04", "unbounded-work", "shot-over-budget plumbing nuclide=" + used.life.cfg.nuc, what + ": one shot on the reused block consumed more than 3000000 deviates"); continue; }
      if (b1 || b2) { out.ctr["window_too_narrow_skipped"]++; continue; }
      if (ok1 != ok2) { if (c07) out.fail("C07", "shot-outcome-differs", "shot-outcome-differs plumbing", what + ": " + (ok1 ? "succeeded" : "threw " + e1) + " on the reused block, " + (ok2 ? "succeeded" : "threw " + e2) + " on a new one"); continue; }
      if (!ok1) continue;
      EventRec a = EventRec::of(ev), b = EventRec::of(ev2);
      tr.add(a.hash());
      out.ctr["shots_compared_with_canonical"]++;
      std::string why = malformed_reason(ev, used.life.cfg.nuc);
      if (c04 && !why.empty()) {
        // same signature as the generator suites (a finding is the same finding through either entry point)
        std::string species;
        for (auto & q : ev.get_particles())
          if (!std::isfinite(q.get_px() + q.get_py() + q.get_pz()) || !std::isfinite(q.get_time())) { species = " species=" + std::to_string((int)q.get_code()); break; }
        std::string cls = used.life.cfg.cat == 2 ? "bkg" : "dbd-m" + std::to_string(used.life.cfg.mode) + (used.life.cfg.level > 0 ? "-exc" : "-gs") + (used.life.cfg.has_window() ? "-win" : "");
        out.fail("C04", "malformed-event", why + " nuclide=" + used.life.cfg.nuc + " cfg=" + cls + species, what + " [plumbing]: " + why + ": " + a.brief());
      }
      if (c07 && !(a == b)) out.fail("C07", "event-differs", "event-differs plumbing nuclide=" + used.life.cfg.nuc, what + ": differs from the event a new parameter block yields: " + first_difference(a, b));
      out.cover.push_back("plumbing/" + std::string(used.life.cfg.cat == 1 ? "dbd-m" + std::to_string(used.life.cfg.mode) : "bkg") + "/life" + std::to_string(std::min(lives, 3)) + "/istart" + std::to_string(used.life.istart));
    }
  }
  out.trace = tr.h;
  return out;
}

Plan gen_plumbing(u64 seed, u64 idx, const RunCtx &)
{
  Plan p; p.suite = "gen-plumbing"; p.seed = seed; p.idx = idx;
  Rng r(hmix(hmix(seed, hstr("gen-plumbing")), idx));
  int lives = (int)r.range(1, 4);
  const auto & cheap = dbd_cheap(); const auto & quad = dbd_quad();
  std::string last_nuc; int last_mode = 0;
  for (int l = 0; l < lives; l++) {
    Op o; o.k = "life";
    u64 d = r.below(100);
    if (d < 20) { o.a = {2, 0, 0, -1, -1, r.chance(0.7) ? -1 : 0, (i64)r.below(1000)}; o.s = {r.pick(bkg_names())}; }
    else {
      const DbdEntry * e = &r.pick(d < 75 || quad.empty() ? cheap : quad);
      // often the same mode (or even the same nuclide) as the previous life: that is where a carried-over table would fit
      if (l > 0 && r.chance(0.5)) { std::vector<const DbdEntry *> alt; for (auto & x : dbd_catalogue()) if (x.mode == last_mode && x.qng_calls <= 1500 && (r.chance(0.5) || x.nuc == last_nuc)) alt.push_back(&x); if (!alt.empty()) e = r.pick(alt); }
      i64 lo = -1, hi = -1;
      if (mode_supports_window(e->mode) && e->e0_keV > 300 && r.chance(0.3)) { lo = r.range(0, (i64)e->e0_keV / 2); hi = lo + r.range((i64)e->e0_keV / 4, (i64)e->e0_keV / 2); }
      o.a = {1, e->level, e->mode, lo, hi, r.chance(0.7) ? -1 : 0, (i64)r.below(1000)}; o.s = {e->nuc};
      last_nuc = e->nuc; last_mode = e->mode;
    }
    p.ops.push_back(o);
    int shots = (int)r.range(1, 8);
    for (int k = 0; k < shots; k++) { Op s; s.k = "pshoot"; s.a = {(i64)r.below(50)}; p.ops.push_back(s); }
  }
  return p;
}

std::vector<Op> simplify_plumbing(const Op & op)
{
  std::vector<Op> v;
  if (op.k == "life" && (op.arg(3, -1) >= 0 || op.arg(4, -1) >= 0)) { Op c = op; c.a[3] = -1; c.a[4] = -1; v.push_back(c); }
  if (op.k == "life" && op.arg(5, -1) == 0) { Op c = op; c.a[5] = -1; v.push_back(c); }
  return v;
}

SuiteRegistrar reg_plumbing({"gen-plumbing", "genbbsub used directly with one caller-owned parameter block through several configurations (C04/C07/C08)", gen_plumbing, run_plumbing,
                             simplify_plumbing, nullptr});

} // namespace
} // namespace sim
