#include "simfs.h"
#include "sched.h"
#include "simrandom.h"
#include <algorithm>
#include <cerrno>
#include <cstdarg>
#include <cstdio>
#include <cstdlib>
#include <cstring>
#include <ctime>
#include <fcntl.h>
#include <sys/mman.h>
#include <sys/stat.h>
#include <sys/uio.h>
#include <unistd.h>

#if !defined(SIM_FLAVOUR_tsan)
#define SIM_HAVE_FS_SEAM 1
extern "C" {
FILE * __real_fopen64(const char *, const char *);
FILE * __real_fopen(const char *, const char *);
int __real_fclose(FILE *);
ssize_t __real_read(int, void *, size_t);
ssize_t __real_write(int, const void *, size_t);
ssize_t __real_writev(int, const struct iovec *, int);
time_t __real_time(time_t *);
int __real_open(const char *, int, ...);
int __real_open64(const char *, int, ...);
int __real_close(int);
}
#endif

namespace sim {
namespace fs {

namespace {
struct FdState { std::string path; bool writing = false; bool positional = false; size_t off = 0; };
struct State
{
  std::map<std::string, std::string> files;
  std::map<int, FdState> fds;
  Faults faults;
  Stats stats;
  i64 read_calls = 0, write_calls = 0, bytes_budget_used = 0;
  std::map<int, i64> task_reads;
  bool write_broken = false;
  std::function<void()> observer;
  i64 clock = 1600000000;
  i64 time_calls = 0;
  std::string real_root;
};
State & S() { static State * s = new State; return *s; } // never destroyed: close() is wrapped and runs during exit too
} // namespace

#ifdef SIM_HAVE_FS_SEAM
bool active() { return true; }
const std::string & root() { static const std::string r = "/simfs"; return r; }
#else
bool active() { return false; }
const std::string & root()
{
  State & s = S();
  if (s.real_root.empty()) {
    // fixed-length name: the path ends up in library strings and exception texts, and the NUMBER of
    // allocations those make must not depend on how many digits the pid has (allocations are schedule points)
    char pidbuf[16]; std::snprintf(pidbuf, sizeof pidbuf, "%08ld", (long)getpid());
    s.real_root = build_dir() + "/tmp/simfs-" + pidbuf;
    std::string cmd = "mkdir -p '" + s.real_root + "'";
    int r = system(cmd.c_str()); (void)r;
  }
  return s.real_root;
}
#endif

void cleanup_process()
{
#ifndef SIM_HAVE_FS_SEAM
  State & s = S();
  if (!s.real_root.empty()) { std::string cmd = "rm -rf '" + s.real_root + "'"; int r = system(cmd.c_str()); (void)r; }
#endif
}

static bool is_sim_path(const char * p) { return p && std::strncmp(p, "/simfs/", 7) == 0; }

void reset()
{
  State & s = S();
#ifndef SIM_HAVE_FS_SEAM
  for (auto & f : s.files) unlink(f.first.c_str());
#endif
  s.files.clear();
  s.faults = Faults();
  s.stats = Stats();
  s.read_calls = s.write_calls = s.bytes_budget_used = 0;
  s.write_broken = false;
  s.observer = nullptr;
}
void begin_op() { State & s = S(); s.read_calls = s.write_calls = 0; s.write_broken = false; s.bytes_budget_used = 0; s.task_reads.clear(); }

void put(const std::string & path, const std::string & data)
{
  S().files[path] = data;
#ifndef SIM_HAVE_FS_SEAM
  // real scratch file (TSan flavour has no file seam)
  std::string dir = path.substr(0, path.rfind('/'));
  std::string cmd = "mkdir -p '" + dir + "'";
  int r = system(cmd.c_str()); (void)r;
  FILE * f = fopen(path.c_str(), "w");
  if (f) { fwrite(data.data(), 1, data.size(), f); fclose(f); }
#endif
}
bool exists(const std::string & path) { return S().files.count(path) != 0; }
std::string get(const std::string & path)
{
  auto it = S().files.find(path);
  return it == S().files.end() ? std::string() : it->second;
}
void remove(const std::string & path)
{
  S().files.erase(path);
#ifndef SIM_HAVE_FS_SEAM
  unlink(path.c_str());
#endif
}
std::vector<std::string> list()
{
  std::vector<std::string> v;
  for (auto & p : S().files) v.push_back(p.first);
  return v;
}
Faults & faults() { return S().faults; }
Stats & stats() { return S().stats; }
void set_crash_observer(std::function<void()> f) { S().observer = std::move(f); }
void set_time(i64 epoch) { S().clock = epoch; }
i64 time_calls() { return S().time_calls; }

#ifdef SIM_HAVE_FS_SEAM
static FILE * sim_open(const char * path, const char * mode, bool & handled)
{
  sim::sched::NoPoints np_;
  handled = false;
  if (!is_sim_path(path)) return nullptr;
  handled = true;
  State & s = S();
  s.stats.opens++;
  auto fe = s.faults.open_errno.find(path);
  if (fe != s.faults.open_errno.end()) { s.stats.open_failed++; errno = fe->second; return nullptr; }
  bool writing = std::strchr(mode, 'w') || std::strchr(mode, 'a') || std::strchr(mode, '+');
  if (!writing && !s.files.count(path)) { s.stats.open_failed++; errno = ENOENT; return nullptr; }
  int fd = memfd_create("simfs", 0);
  if (fd < 0) { errno = EMFILE; return nullptr; }
  if (writing) {
    if (std::strchr(mode, 'w')) {
      bool existed = s.files.count(path) && !s.files[path].empty();
      s.files[path] = "";
      // truncating an existing file is a durable state change: a kill right after it is a crash point too
      if (existed && s.observer) { s.stats.crash_points++; s.observer(); }
    }
  } else {
    const std::string & d = s.files[path];
    size_t off = 0;
    while (off < d.size()) {
      ssize_t w = __real_write(fd, d.data() + off, d.size() - off);
      if (w <= 0) break;
      off += (size_t)w;
    }
    lseek(fd, 0, SEEK_SET);
  }
  FILE * f = fdopen(fd, mode);
  if (!f) { close(fd); return nullptr; }
  FdState st; st.path = path; st.writing = writing;
  s.fds[fd] = st;
  return f;
}

static ssize_t sim_write(int fd, const char * buf, size_t n, FdState & st)
{
  sim::sched::NoPoints np_;
  State & s = S();
  i64 call = s.write_calls++;
  s.stats.writes++;
  if (s.write_broken) { s.stats.write_errors++; errno = s.faults.write_errno ? (int)s.faults.write_errno : EIO; return -1; }
  if (s.faults.eio_at_write >= 0 && call == s.faults.eio_at_write) {
    s.stats.write_errors++;
    if (s.faults.eio_write_persistent) s.write_broken = true;
    errno = s.faults.write_errno ? (int)s.faults.write_errno : EIO;
    return -1;
  }
  size_t take = n;
  if (s.faults.short_write_max > 0 && take > (size_t)s.faults.short_write_max) { take = (size_t)s.faults.short_write_max; s.stats.short_writes++; }
  if (s.faults.enospc_after >= 0) {
    i64 left = s.faults.enospc_after - s.bytes_budget_used;
    if (left <= 0) { s.stats.enospc++; errno = ENOSPC; return -1; }
    if ((i64)take > left) { take = (size_t)left; s.stats.short_writes++; }
  }
  if (take == 0 && n > 0) { errno = ENOSPC; return -1; }
  ssize_t w = __real_write(fd, buf, take);
  if (w <= 0) return w;
  std::string & data = s.files[st.path];
  // kill points strictly inside this write: a prefix of the bytes has reached the kernel
  if (s.observer && s.faults.interior_cuts > 0 && w > 1 && (!st.positional || st.off >= data.size())) {
    if (st.positional && st.off > data.size()) data.resize(st.off, '\0');
    size_t base = data.size();
    std::vector<size_t> cuts;
    for (int k = 0; k < s.faults.interior_cuts; k++) cuts.push_back(1 + (size_t)(hmix(s.faults.cut_key, hmix((u64)call, (u64)k)) % (u64)(w - 1)));
    std::sort(cuts.begin(), cuts.end());
    size_t done = 0;
    for (size_t c : cuts) {
      if (c <= done) continue;
      data.append(buf + done, c - done); done = c;
      s.stats.crash_points++;
      s.observer();
    }
    data.resize(base);
  }
  if (!st.positional) data.append(buf, (size_t)w);
  else {
    // descriptor from open(2) without O_TRUNC: bytes land at the descriptor's offset, what lies behind them stays
    if (st.off > data.size()) data.resize(st.off, '\0');
    size_t over = std::min((size_t)w, data.size() - st.off);
    data.replace(st.off, over, buf, (size_t)w);
    st.off += (size_t)w;
  }
  s.bytes_budget_used += w;
  s.stats.bytes_written += w;
  if (s.observer) { s.stats.crash_points++; s.observer(); }
  return w;
}
#endif

} // namespace fs
} // namespace sim

#ifdef SIM_HAVE_FS_SEAM
using namespace sim::fs;
using sim::i64;
using sim::u64;
extern "C" {

FILE * __wrap_fopen64(const char * path, const char * mode)
{
  bool handled; FILE * f = sim_open(path, mode, handled);
  return handled ? f : __real_fopen64(path, mode);
}
FILE * __wrap_fopen(const char * path, const char * mode)
{
  bool handled; FILE * f = sim_open(path, mode, handled);
  return handled ? f : __real_fopen(path, mode);
}
int __wrap_fclose(FILE * f)
{
  sim::sched::NoPoints np_;
  if (f) { int fd = fileno(f); S().fds.erase(fd); }
  return __real_fclose(f);
}
static int sim_open_fd(const char * path, int flags, bool & handled)
{
  sim::sched::NoPoints np_;
  handled = false;
  if (!is_sim_path(path)) return -1;
  handled = true;
  State & s = S();
  s.stats.opens++;
  auto fe = s.faults.open_errno.find(path);
  if (fe != s.faults.open_errno.end()) { s.stats.open_failed++; errno = fe->second; return -1; }
  bool have = s.files.count(path) != 0;
  if (!have && !(flags & O_CREAT)) { s.stats.open_failed++; errno = ENOENT; return -1; }
  if (have && (flags & O_CREAT) && (flags & O_EXCL)) { s.stats.open_failed++; errno = EEXIST; return -1; }
  bool writing = (flags & O_ACCMODE) != O_RDONLY;
  int fd = memfd_create("simfs", 0);
  if (fd < 0) { errno = EMFILE; return -1; }
  if (writing && (flags & O_TRUNC)) {
    bool existed = have && !s.files[path].empty();
    s.files[path] = "";
    if (existed && s.observer) { s.stats.crash_points++; s.observer(); }
  } else if (!have) s.files[path] = "";
  const std::string & d = s.files[path];
  size_t off = 0;
  while (off < d.size()) { ssize_t w = __real_write(fd, d.data() + off, d.size() - off); if (w <= 0) break; off += (size_t)w; }
  FdState st; st.path = path; st.writing = writing; st.positional = true;
  st.off = (flags & O_APPEND) ? d.size() : 0;
  lseek(fd, (off_t)st.off, SEEK_SET);
  s.fds[fd] = st;
  return fd;
}
int __wrap_open(const char * path, int flags, ...)
{
  mode_t mode = 0;
  if (flags & (O_CREAT | O_TMPFILE)) { va_list ap; va_start(ap, flags); mode = (mode_t)va_arg(ap, int); va_end(ap); }
  bool handled; int fd = sim_open_fd(path, flags, handled);
  return handled ? fd : __real_open(path, flags, mode);
}
int __wrap_open64(const char * path, int flags, ...)
{
  mode_t mode = 0;
  if (flags & (O_CREAT | O_TMPFILE)) { va_list ap; va_start(ap, flags); mode = (mode_t)va_arg(ap, int); va_end(ap); }
  bool handled; int fd = sim_open_fd(path, flags, handled);
  return handled ? fd : __real_open64(path, flags, mode);
}
int __wrap_close(int fd)
{
  sim::sched::NoPoints np_;
  State & s = S();
  if (!s.fds.empty()) s.fds.erase(fd);
  return __real_close(fd);
}
ssize_t __wrap_read(int fd, void * buf, size_t n)
{
  // thread mode: every read issued by a simulated task is a schedule point (lazy loading of catalogue
  // lists and gA tables happens inside the library's first-use paths)
  if (sim::sched::io_points() && sim::sched::current_task() >= 0) sim::sched_point(sim::SP_IO, fd);
  sim::sched::NoPoints np_;
  State & s = S();
  if (s.fds.empty()) return __real_read(fd, buf, n);
  auto it = s.fds.find(fd);
  if (it == s.fds.end()) return __real_read(fd, buf, n);
  i64 call = s.read_calls++;
  s.stats.reads++;
  if (s.faults.eio_at_read >= 0 && call >= s.faults.eio_at_read) { s.stats.read_eio++; errno = EIO; return -1; }
  if (!s.faults.task_eio_at_read.empty()) {
    int t = sim::sched::current_task();
    auto it2 = s.faults.task_eio_at_read.find(t);
    if (it2 != s.faults.task_eio_at_read.end() && s.task_reads[t]++ >= it2->second) { s.stats.read_eio++; errno = EIO; return -1; }
  }
  if (s.faults.eintr_every > 0 && (call % s.faults.eintr_every) == s.faults.eintr_every - 1) {
    // fail once; the retry is a new call index
    s.stats.eintr++; errno = EINTR; return -1;
  }
  size_t take = n;
  if (s.faults.short_read_max > 0 && take > (size_t)s.faults.short_read_max) { take = (size_t)s.faults.short_read_max; }
  ssize_t r = __real_read(fd, buf, take);
  if (r > 0) { s.stats.bytes_read += r; if ((size_t)r < n && take < n) s.stats.short_reads++; }
  return r;
}
ssize_t __wrap_write(int fd, const void * buf, size_t n)
{
  sim::sched::NoPoints np_;
  State & s = S();
  if (s.fds.empty()) return __real_write(fd, buf, n);
  auto it = s.fds.find(fd);
  if (it == s.fds.end()) return __real_write(fd, buf, n);
  return sim_write(fd, (const char *)buf, n, it->second);
}
ssize_t __wrap_writev(int fd, const struct iovec * iov, int cnt)
{
  sim::sched::NoPoints np_;
  State & s = S();
  if (s.fds.empty()) return __real_writev(fd, iov, cnt);
  auto it = s.fds.find(fd);
  if (it == s.fds.end()) return __real_writev(fd, iov, cnt);
  // one writev == one gather write of the concatenation
  std::string all;
  for (int i = 0; i < cnt; i++) all.append((const char *)iov[i].iov_base, iov[i].iov_len);
  return sim_write(fd, all.data(), all.size(), it->second);
}
time_t __wrap_time(time_t * t)
{
  State & s = S();
  s.time_calls++;
  time_t v = (time_t)s.clock;
  if (t) *t = v;
  return v;
}
} // extern "C"
#endif
