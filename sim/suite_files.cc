// Storage-fault suites (property C15): valid files produced by the real writers are damaged on the
// simulated disk the way durable state gets damaged between writer and reader (torn tail, flipped
// or overwritten byte, zeroed / dropped / duplicated block or line, empty file), optionally with
// I/O errors while reading, then handed to the loader and *used*.
//
//   op src     kind a b        (which valid file: events / gA pdf / gA ocdf / catalogue list; a,b choose content)
//   op trunc   k               | flip pos xor | setbyte pos chidx | zero pos len | drop pos len | dup pos len
//   op tok idx mode header_biased   (a field overwritten by a neighbouring field / an edge value / doubled)
//   op dropline n | dupline n | empty | splice pos src taillen at_line_boundary  (new head + stale tail of another file)
//   op rfault  kind arg        (in flight: 1 short reads, 3 EIO from read #arg)
//   op use     start max       (events: reader window)
//
// Oracle: the loader throws a std::exception, or it succeeds and (events) every delivered event is
// event::is_valid() and the number delivered is bounded by the file's line count; always: no signal,
// no sanitizer report, bounded reads per call, bounded allocation (<= 64 x file size + 64 MiB, no
// single request above that), and the loader returns (wall-clock backstop in the runner).
#include "configs.h"
#include "simfs.h"
#include "simrandom.h"
#include <bxdecay0/bb_utils.h>
#include <bxdecay0/dbd_gA.h>
#include <bxdecay0/event_reader.h>
#include <cstdio>
#include <fstream>
#include <sys/wait.h>
#include <unistd.h>

namespace sim {

std::string ga_file(const std::string & name, const std::string & file);
std::string ga_root();
std::string self_exe();

namespace {

const char * SETS[3] = {"small", "medium", "steep"};
const char INTERESTING[] = {'0', '9', '1', '-', '.', 'e', ' ', '\n', '^', '!', '#', '+', 'n', 'x', '\t', '\0'};

std::string read_real(const std::string & p)
{
  std::ifstream f(p.c_str(), std::ios::binary);
  std::ostringstream o; o << f.rdbuf();
  return o.str();
}

std::string valid_events(i64 a, i64 b)
{
  // the real writer's framing over real generator events
  static const char * N[] = {"Co60", "Cs137+Ba137m", "Bi214+Po214", "K40", "Tl208", "Am241"};
  static std::map<std::string, std::string> cache;
  a = ((a % 6) + 6) % 6; b = ((b % 4) + 4) % 4; // the content below is a function of (a, b): normalise BEFORE using them (the cache key did, the streams did not)
  std::string key = std::to_string(a) + ":" + std::to_string(b);
  auto it = cache.find(key);
  if (it != cache.end()) return it->second;
  bxdecay0::decay0_generator g;
  g.set_decay_category(bxdecay0::decay0_generator::DECAY_CATEGORY_BACKGROUND);
  g.set_decay_isotope(N[a % 6]);
  SimRandom ri(1); g.initialize(ri);
  std::ostringstream o; o.precision(15);
  size_t n = 3 + (size_t)(b % 4) * 4;
  for (size_t i = 0; i < n; i++) {
    bxdecay0::event e; SimRandom rs(hmix(hstr("files-ev"), hmix((u64)a, i)));
    g.shoot(rs, e); e.set_time(i % 2 ? 0.0 : 1.5 * (double)i);
    o << i << ' '; e.store(o, bxdecay0::event::STORE_EVENT_TIME); o << '\n';
  }
  return cache[key] = o.str();
}

std::vector<size_t> line_starts(const std::string & d)
{
  std::vector<size_t> v; v.push_back(0);
  for (size_t i = 0; i + 1 < d.size(); i++) if (d[i] == '\n') v.push_back(i + 1);
  return v;
}

/// apply the at-rest faults of the plan, in order
std::string damage(std::string d, const Plan & plan, Outcome & out)
{
  for (const Op & op : plan.ops) {
    if (op.k == "src" || op.k == "use" || op.k == "rfault" || op.k == "again") continue;
    if (d.empty()) continue; // nothing left to damage
    size_t n = d.size();
    if (op.k == "trunc") { d.resize((size_t)(op.arg(0) % (i64)(n + 1))); out.ctr["fault_torn_tail"]++; }
    else if (op.k == "flip") { d[(size_t)(op.arg(0) % (i64)n)] ^= (char)(1 + op.arg(1) % 255); out.ctr["fault_byte_flip"]++; }
    else if (op.k == "setbyte") { d[(size_t)(op.arg(0) % (i64)n)] = INTERESTING[op.arg(1) % (i64)sizeof(INTERESTING)]; out.ctr["fault_byte_overwrite"]++; }
    else if (op.k == "zero") { size_t p = (size_t)(op.arg(0) % (i64)n), l = std::min<size_t>((size_t)op.arg(1), n - p); for (size_t i = 0; i < l; i++) d[p + i] = 0; out.ctr["fault_zeroed_block"]++; }
    else if (op.k == "drop") { size_t p = (size_t)(op.arg(0) % (i64)n), l = std::min<size_t>((size_t)op.arg(1), n - p); d.erase(p, l); out.ctr["fault_dropped_block"]++; }
    else if (op.k == "dup") { size_t p = (size_t)(op.arg(0) % (i64)n), l = std::min<size_t>((size_t)op.arg(1), n - p); d.insert(p, d.substr(p, l)); out.ctr["fault_duplicated_block"]++; }
    else if (op.k == "dropline" || op.k == "dupline") {
      auto ls = line_starts(d);
      size_t li = (size_t)(op.arg(0) % (i64)ls.size());
      size_t b = ls[li], e = li + 1 < ls.size() ? ls[li + 1] : n;
      if (op.k == "dropline") { d.erase(b, e - b); out.ctr["fault_dropped_line"]++; }
      else { d.insert(b, d.substr(b, e - b)); out.ctr["fault_duplicated_line"]++; }
    }
    else if (op.k == "splice") {
      // torn in-place overwrite: the head of the new file, then stale bytes of whatever the blocks held before
      // (the tail of another valid file; the shipped Test table ends with a comment line)
      size_t cut = (size_t)(op.arg(0) % (i64)(n + 1));
      if (op.arg(3)) { size_t nl = d.rfind('\n', cut ? cut - 1 : 0); cut = nl == std::string::npos ? 0 : nl + 1; } // at a line boundary
      std::string old;
      i64 src = op.arg(1) % 3;
      if (src == 0) old = read_real(repo_dir() + "/resources/data/dbd_gA/Test/g0/tab_pdf.data");
      else if (src == 1) old = ga_file(SETS[(size_t)(op.arg(1) / 3 % 3)], "tab_ocdf.data");
      else old = valid_events(op.arg(1), 1);
      size_t tl = std::min<size_t>((size_t)op.arg(2), old.size());
      d = d.substr(0, cut) + old.substr(old.size() - tl);
      out.ctr["fault_stale_tail_spliced"]++;
    }
    else if (op.k == "tok") {
      // field-granular damage (the one operator that looks at the text structure): a whitespace-delimited token is
      // overwritten by a neighbouring token (misdirected write at field granularity), by an edge value, doubled or deleted
      std::vector<std::pair<size_t, size_t>> toks; // (begin, length)
      std::vector<char> on_comment_line;           // per token (linear scan: the file may be one 700 kB line)
      size_t line_start = 0;
      for (size_t i = 0; i < n;) {
        while (i < n && isspace((unsigned char)d[i])) { if (d[i] == '\n') line_start = i + 1; i++; }
        size_t b = i; while (i < n && !isspace((unsigned char)d[i])) i++;
        if (i > b) { toks.push_back({b, i - b}); on_comment_line.push_back(d[line_start] == '#'); }
      }
      if (!toks.empty()) {
        // skip leading comment lines when counting "header" tokens: a header token is one of the first 12 on non-comment lines
        std::vector<size_t> data_toks;
        for (size_t t = 0; t < toks.size(); t++) if (!on_comment_line[t]) data_toks.push_back(t);
        if (data_toks.empty()) for (size_t t = 0; t < toks.size(); t++) data_toks.push_back(t);
        size_t pick = (op.arg(2) && data_toks.size() > 12) ? (size_t)(op.arg(0) % 12) : (size_t)(op.arg(0) % (i64)data_toks.size());
        size_t ti = data_toks[pick];
        static const char * EDGE[] = {"0", "-1", "1e999", "nan", "inf", "-0.0", "1", "4294967296", "1e-320"};
        i64 mode = op.arg(1) % 16;
        std::string repl;
        if (mode < 4) { size_t src = mode < 2 ? (ti > 0 ? ti - 1 : ti) : (ti + 1 < toks.size() ? ti + 1 : ti); if (mode == 1 && ti > 1) src = ti - 2; if (mode == 3 && ti + 2 < toks.size()) src = ti + 2; repl = d.substr(toks[src].first, toks[src].second); }
        else if (mode < 13) repl = EDGE[mode - 4];
        else if (mode >= 14) {
          // near-copy: the previous field's value a couple of ulps up (mode 14) or down (mode 15) - a range that is not
          // empty as two numbers but has no room for the grid between them
          size_t src = ti > 0 ? ti - 1 : ti;
          std::string t = d.substr(toks[src].first, toks[src].second);
          char * end = nullptr; double v = std::strtod(t.c_str(), &end);
          if (end && *end == '\0' && std::isfinite(v)) {
            double dir = mode == 14 ? INFINITY : -INFINITY;
            v = std::nextafter(std::nextafter(v, dir), dir);
            char b[64]; std::snprintf(b, sizeof b, "%.17g", v); repl = b;
          } else repl = t;
        }
        else repl = d.substr(toks[ti].first, toks[ti].second) + " " + d.substr(toks[ti].first, toks[ti].second);
        d = d.substr(0, toks[ti].first) + repl + d.substr(toks[ti].first + toks[ti].second);
        out.ctr["fault_field_overwritten"]++;
      }
    }
    else if (op.k == "rep") {
      // a short run of bytes written over and over (a stuck write): very long lines / fields, up to ~700 kB
      size_t p = (size_t)(op.arg(0) % (i64)n), l = std::min<size_t>((size_t)std::max<i64>(1, op.arg(1)), n - p);
      std::string blk = d.substr(p, l); size_t nl = blk.find('\n'); if (nl != std::string::npos) blk = blk.substr(0, nl);
      if (!blk.empty()) {
        size_t times = std::min<size_t>((size_t)std::max<i64>(1, op.arg(2)), 700000 / blk.size());
        std::string ins; ins.reserve(times * blk.size());
        for (size_t i = 0; i < times; i++) ins += blk;
        d.insert(p, ins);
        out.ctr["fault_repeated_block"]++;
      }
    }
    else if (op.k == "empty") { d.clear(); out.ctr["fault_empty_file"]++; }
  }
  return d;
}

void set_read_faults(const Plan & plan, Outcome & out)
{
  fs::faults() = fs::Faults();
  for (const Op & op : plan.ops) if (op.k == "rfault") {
    if (op.arg(0) == 1) fs::faults().short_read_max = std::max<i64>(1, op.arg(1));
    else if (op.arg(0) == 3) fs::faults().eio_at_read = std::max<i64>(0, op.arg(1));
  }
  (void)out;
}

std::string fault_kinds(const Plan & plan)
{
  std::string s;
  for (const Op & op : plan.ops) if (op.k != "src" && op.k != "use" && op.k != "again") s += (s.empty() ? "" : "+") + op.k;
  return s.empty() ? "none" : s;
}

struct Limits { i64 bytes, single, reads; };
Limits limits_for(size_t file_size) { return {(i64)(64 * file_size) + (64ll << 20), (i64)(64 * file_size) + (64ll << 20), (i64)(16 * file_size) + 2000}; }

void check_resources(Outcome & out, bool check, const std::string & what, const Limits & lim, i64 bytes, i64 single, i64 reads, const std::string & sigctx)
{
  if (bytes > out.mx["max_bytes_allocated_per_load"]) out.mx["max_bytes_allocated_per_load"] = bytes;
  if (reads > out.mx["max_read_calls_per_load"]) out.mx["max_read_calls_per_load"] = reads;
  if (!check) return;
  if (single > lim.single) out.fail("C15", "unbounded-allocation", "single-allocation " + sigctx, what + " requested " + std::to_string(single) + " bytes in one allocation (limit " + std::to_string(lim.single) + ")");
  else if (bytes > lim.bytes) out.fail("C15", "unbounded-allocation", "total-allocation " + sigctx, what + " allocated " + std::to_string(bytes) + " bytes (limit " + std::to_string(lim.bytes) + ")");
  if (reads > lim.reads) out.fail("C15", "unbounded-work", "read-calls " + sigctx, what + " issued " + std::to_string(reads) + " read calls (limit " + std::to_string(lim.reads) + ")");
}

// ---- event files ---------------------------------------------------------------------------------
Outcome run_files_events(const Plan & plan, const RunCtx & ctx)
{
  Outcome out; Trace tr;
  const bool check = ctx.prop == "C15";
  fs::reset();
  i64 a = 0, b = 0, start = 0, maxn = 0;
  for (const Op & op : plan.ops) { if (op.k == "src") { a = op.arg(1); b = op.arg(2); } if (op.k == "use") { start = op.arg(0); maxn = op.arg(1); } }
  std::string valid = valid_events(a, b);
  std::string bad = damage(valid, plan, out);
  tr.adds(bad);
  std::string p1 = fs::root() + "/c15/a.d0t", p2 = fs::root() + "/c15/b.d0t";
  fs::put(p1, bad);
  { size_t e = valid.find("\n\n"); fs::put(p2, e == std::string::npos ? valid : valid.substr(0, e + 2)); } // a healthy second file (one record)
  set_read_faults(plan, out);
  fs::begin_op();
  size_t lines = 0; for (char c : bad) if (c == '\n') lines++;
  lines += 40;
  Limits lim = limits_for(bad.size() + valid.size());
  i64 reads0 = fs::stats().reads;
  i64 delivered = 0; bool threw = false; std::string err; bool invalid_event = false; std::string invalid_brief;
  bool af = false;
  bool ok = sut_call(-1, [&] {
    bxdecay0::event_reader::config_type cfg;
    cfg.event_files = {p1, p2}; cfg.start_event = (int)start; cfg.max_nb_events = (int)maxn;
    bxdecay0::event_reader rd(cfg, 0);
    for (size_t i = 0; i < lines + 10 && rd.has_next_event(); i++) {
      bxdecay0::event ev;
      rd.load_next_event(ev);
      delivered++;
      if (!ev.is_valid() && !invalid_event) { invalid_event = true; invalid_brief = EventRec::of(ev).brief(); }
    }
  }, err, af);
  threw = !ok;
  i64 reads = fs::stats().reads - reads0;
  tr.add((u64)ok); tr.add((u64)delivered);
  out.ctr[threw ? "loader_raised_error" : "loader_accepted"]++;
  out.ctr["events_delivered"] += delivered;
  out.ctr["read_calls"] += reads;
  std::string sigctx = "events " + fault_kinds(plan);
  if (check) {
    if (invalid_event) out.fail("C15", "garbage-load", "invalid-event-delivered " + sigctx, "event_reader delivered an event that fails event::is_valid(): " + invalid_brief);
    // a torn tail, nothing else: the file is a valid prefix followed by one incomplete record. If the cut removed at least
    // the last value of that record, no loader can deliver it without making values up
    {
      bool only_trunc = true; i64 cut = -1; int nfaults = 0;
      for (const Op & op : plan.ops) {
        if (op.k == "src" || op.k == "use" || op.k == "again") continue;
        nfaults++;
        if (op.k == "trunc") cut = op.arg(0) % (i64)(valid.size() + 1); else only_trunc = false;
      }
      if (only_trunc && nfaults == 1 && cut >= 0 && start == 0 && maxn == 0 && !threw) {
        // records of the valid text: [begin, offset of the last token)
        size_t pos = 0; i64 complete = 0; bool incomplete_missing_value = false;
        while (pos < valid.size()) {
          size_t e = valid.find("\n\n", pos);
          size_t rec_end = e == std::string::npos ? valid.size() : e + 1; // just after the newline of the last particle line
          size_t last_tok = valid.find_last_not_of(" \n", rec_end - 1);
          last_tok = valid.find_last_of(" \n", last_tok); last_tok = last_tok == std::string::npos ? pos : last_tok + 1;
          if ((size_t)cut >= rec_end) complete++;
          else { if ((size_t)cut > pos && (size_t)cut <= last_tok) incomplete_missing_value = true; break; }
          pos = e == std::string::npos ? valid.size() : e + 2;
        }
        out.ctr["torn_tail_runs_with_content_oracle"]++;
        if (incomplete_missing_value && delivered > complete + 1)
          out.fail("C15", "garbage-load", "event-delivered-from-incomplete-record " + sigctx,
                   "the file was cut at byte " + std::to_string(cut) + ", inside record #" + std::to_string(complete) + " and before its last value; " + std::to_string(delivered)
                       + " events were delivered (" + std::to_string(complete) + " complete records + 1 in the second file): one of them was made up");
      }
    }
    // the reader is token based (records need not sit on lines of their own: a stuck write may put hundreds on one line);
    // an event takes at least four tokens (id, time, label, particle count)
    {
      size_t toks = 0; bool in = false;
      for (const std::string * t : {&bad, &valid}) { for (char c : *t) { bool w = isspace((unsigned char)c) != 0; if (!w && !in) toks++; in = !w; } in = false; }
      if ((size_t)delivered * 4 > toks + 4)
        out.fail("C15", "garbage-load", "more-events-than-the-file-can-hold " + sigctx, std::to_string(delivered) + " events delivered from files of " + std::to_string(toks) + " tokens");
    }
  }
  check_resources(out, check, "event_reader", lim, alloc_ctl().bytes, alloc_ctl().max_single, reads, sigctx);
  out.cover.push_back("events/" + fault_kinds(plan) + "/" + (threw ? "error" : "accepted"));
  fs::faults() = fs::Faults();
  out.trace = tr.h;
  return out;
}

// ---- gA tables -----------------------------------------------------------------------------------
Outcome run_files_ga(const Plan & plan, const RunCtx & ctx)
{
  Outcome out; Trace tr;
  const bool check = ctx.prop == "C15";
  fs::reset();
  i64 method = 0, set = 0, via = 0;
  for (const Op & op : plan.ops) if (op.k == "src") { method = op.arg(0); set = op.arg(1); via = op.arg(2); }
  bool pdf = method == 1;
  // sets 0-2: small/medium/steep; 3: the shipped Test table (p.d.f.) or small; 4, 5: the smallest tables the format allows (2 and 3 samples)
  std::string valid = ga_file(set == 4 ? "tiny2" : (set == 5 ? "tiny3" : SETS[(size_t)(set % 3)]), pdf ? "tab_pdf.data" : "tab_ocdf.data");
  if (pdf && set == 3) valid = read_real(repo_dir() + "/resources/data/dbd_gA/Test/g0/tab_pdf.data");
  std::string bad = damage(valid, plan, out);
  tr.adds(bad);
  bool through_generator = !pdf && (via % 2 == 1);
  std::string nuc = through_generator ? "Se82" : "Test";
  std::string path = ga_root() + "/data/dbd_gA/v1.0/" + nuc + "/g0/" + (pdf ? "tab_pdf.data" : "tab_ocdf.data");
  fs::put(path, bad);
  set_read_faults(plan, out);
  fs::begin_op();
  Limits lim = limits_for(bad.size() + 1000);
  i64 reads0 = fs::stats().reads;
  std::string err; bool af = false;
  std::unique_ptr<bxdecay0::dbd_gA> ga;
  std::unique_ptr<bxdecay0::decay0_generator> gen;
  bool ok = sut_call(-1, [&] {
    if (through_generator) {
      gen.reset(new bxdecay0::decay0_generator);
      gen->set_decay_category(bxdecay0::decay0_generator::DECAY_CATEGORY_DBD);
      gen->set_decay_isotope("Se82"); gen->set_decay_dbd_level(0);
      gen->set_decay_dbd_mode(bxdecay0::DBDMODE_2NUBB_GA_G0);
      SimRandom ri(7); gen->initialize(ri);
    } else {
      ga.reset(new bxdecay0::dbd_gA);
      ga->set_nuclide("Test"); ga->set_process(bxdecay0::dbd_gA::PROCESS_G0);
      ga->set_shooting(pdf ? bxdecay0::dbd_gA::SHOOTING_REJECTION : bxdecay0::dbd_gA::SHOOTING_INVERSE_TRANSFORM_METHOD);
      ga->initialize();
    }
  }, err, af);
  i64 reads = fs::stats().reads - reads0;
  i64 bytes = alloc_ctl().bytes, single = alloc_ctl().max_single;
  fs::faults() = fs::Faults();
  tr.add((u64)ok);
  out.ctr[ok ? "loader_accepted" : "loader_raised_error"]++;
  out.ctr["read_calls"] += reads;
  std::string sigctx = std::string(pdf ? "ga-pdf " : "ga-ocdf ") + fault_kinds(plan);
  if (bad == valid && fs::stats().read_eio == 0) {
    out.ctr["undamaged_tables_loaded"]++;
    if (!ok && check) out.fail("C15", "valid-table-rejected", "valid-table-rejected " + std::string(pdf ? "ga-pdf" : "ga-ocdf"), "the table as the writer produced it (set " + std::to_string(set) + ") was refused: " + err);
  }
  check_resources(out, check, "dbd_gA::initialize", lim, bytes, single, reads, sigctx);
  if (ok) {
    // use what was loaded: memory safety of the sampler over a table that passed the loader's checks
    SimRandom rs(hmix(hstr("files-ga-shots"), plan.hash()));
    i64 shot_ok = 0, shot_threw = 0, nonfinite = 0, budget = 0;
    for (int i = 0; i < 200; i++) {
      rs.begin_op(5000000);
      bxdecay0::event ev;
      try {
        if (through_generator) gen->shoot(rs, ev); else ga->shoot(rs, ev);
        shot_ok++;
        for (auto & p : ev.get_particles()) if (!std::isfinite(p.get_px() + p.get_py() + p.get_pz())) { nonfinite++; break; }
      } catch (SimBudget &) { budget++; break; }
      catch (std::exception &) { shot_threw++; }
    }
    tr.add((u64)shot_ok); tr.add((u64)shot_threw);
    out.ctr["shots_after_accepted_table"] += shot_ok;
    out.ctr["shots_threw_after_accepted_table"] += shot_threw;
    out.ctr["diag_nonfinite_shots_after_accepted_table"] += nonfinite;
    out.ctr["shot_budget_exhausted_after_accepted_table"] += budget;
    // "never loops forever": a table the loader accepted must be usable. 5e6 deviates for one shot is 10^4 times what the
    // worst valid table needs; a damaged value can make rejection sampling inefficient by the inverse of the grid size, not more
    if (budget > 0 && check)
      out.fail("C15", "unbounded-work-after-accepted-table", "unbounded-work-after-accepted-table " + sigctx,
               "the loader accepted the damaged table, then one shot consumed more than 5000000 deviates without returning (shots completed before: " + std::to_string(shot_ok) + ")");
    if (bad != valid) out.ctr["probe_damaged_table_accepted"]++;
  }
  // ---- the same object again: a rejected table must not poison the next load ("again" ops) ----------
  int again_n = 0;
  for (const Op & op : plan.ops) {
    if (op.k != "again" || out.violated() || again_n >= 3) continue;
    again_n++;
    if ((through_generator && gen && gen->is_initialized()) || (!through_generator && ga && ga->is_initialized())) {
      // loaded: release it the regular way before loading again
      std::string e2; bool a2 = false;
      sut_call(-1, [&] { if (through_generator) gen->reset(); else ga->reset(); }, e2, a2);
      if (through_generator) {
        gen->set_decay_category(bxdecay0::decay0_generator::DECAY_CATEGORY_DBD);
        gen->set_decay_isotope("Se82"); gen->set_decay_dbd_level(0); gen->set_decay_dbd_mode(bxdecay0::DBDMODE_2NUBB_GA_G0);
      } else {
        ga->set_nuclide("Test"); ga->set_process(bxdecay0::dbd_gA::PROCESS_G0);
        ga->set_shooting(pdf ? bxdecay0::dbd_gA::SHOOTING_REJECTION : bxdecay0::dbd_gA::SHOOTING_INVERSE_TRANSFORM_METHOD);
      }
    }
    i64 mode = op.arg(0);
    std::string next = mode == 2 ? bad : ga_file(SETS[(size_t)((set + (mode == 1 ? 1 : 0)) % 3)], pdf ? "tab_pdf.data" : "tab_ocdf.data");
    if (mode == 3 && !next.empty()) next = next.substr(0, (size_t)(op.arg(1) % (i64)next.size()));
    bool next_is_valid = mode == 0 || mode == 1;
    fs::put(path, next);
    fs::begin_op();
    std::string err2; bool af2 = false;
    bool ok2 = sut_call(-1, [&] { if (through_generator) { SimRandom ri(7); gen->initialize(ri); } else ga->initialize(); }, err2, af2);
    tr.add((u64)ok2);
    out.ctr[ok2 ? "reload_accepted" : "reload_raised_error"]++;
    check_resources(out, check, "dbd_gA::initialize (again)", limits_for(next.size() + 1000), alloc_ctl().bytes, alloc_ctl().max_single, 0, sigctx + " again");
    if (next_is_valid) {
      if (!ok2) {
        if (check) out.fail("C15", "valid-table-rejected-after-failed-load", "valid-table-rejected-after-failed-load " + sigctx,
                            "a valid table was rejected (" + err2 + ") by an object whose previous load " + (ok ? "succeeded" : "had failed"));
      } else {
        // the object must now behave like a pristine one loaded from the same file
        std::unique_ptr<bxdecay0::dbd_gA> ga2; std::unique_ptr<bxdecay0::decay0_generator> gen2;
        std::string e3; bool a3 = false;
        bool ok3 = sut_call(-1, [&] {
          if (through_generator) {
            gen2.reset(new bxdecay0::decay0_generator);
            gen2->set_decay_category(bxdecay0::decay0_generator::DECAY_CATEGORY_DBD);
            gen2->set_decay_isotope("Se82"); gen2->set_decay_dbd_level(0); gen2->set_decay_dbd_mode(bxdecay0::DBDMODE_2NUBB_GA_G0);
            SimRandom ri(7); gen2->initialize(ri);
          } else {
            ga2.reset(new bxdecay0::dbd_gA);
            ga2->set_nuclide("Test"); ga2->set_process(bxdecay0::dbd_gA::PROCESS_G0);
            ga2->set_shooting(pdf ? bxdecay0::dbd_gA::SHOOTING_REJECTION : bxdecay0::dbd_gA::SHOOTING_INVERSE_TRANSFORM_METHOD);
            ga2->initialize();
          }
        }, e3, a3);
        if (ok3) {
          SimRandom r1(hstr("again-shots")), r2(hstr("again-shots"));
          for (int i = 0; i < 40 && !out.violated(); i++) {
            r1.begin_op(200000); r2.begin_op(200000);
            bxdecay0::event e1, e2v; bool t1 = false, t2 = false;
            try { if (through_generator) gen->shoot(r1, e1); else ga->shoot(r1, e1); } catch (std::exception &) { t1 = true; }
            try { if (through_generator) gen2->shoot(r2, e2v); else ga2->shoot(r2, e2v); } catch (std::exception &) { t2 = true; }
            out.ctr["shots_compared_after_reload"]++;
            if (check && (t1 != t2 || (!t1 && !(EventRec::of(e1) == EventRec::of(e2v)))))
              out.fail("C15", "stale-table-data-after-failed-load", "stale-table-data-after-failed-load " + sigctx,
                       "after a " + std::string(ok ? "successful" : "rejected") + " load, the same object loaded a valid table but samples differently from a pristine object loaded from the same file (shot #" + std::to_string(i) + ")");
          }
        }
      }
    }
    ok = ok2;
  }
  out.cover.push_back(sigctx + "/" + (ok ? "accepted" : "error") + (again_n ? "/again" + std::to_string(again_n) : ""));
  ga.reset(); gen.reset();
  out.trace = tr.h;
  return out;
}

// ---- catalogue lists: function-local statics are once-per-process, so the loader runs in a freshly
// exec'ed child (bxsim lists-child <plan-file>), which reports one line ---------------------------
Outcome run_files_lists(const Plan & plan, const RunCtx & ctx)
{
  Outcome out; Trace tr;
  const bool check = ctx.prop == "C15";
  std::string tdir = build_dir() + "/tmp";
  int r0 = system(("mkdir -p '" + tdir + "'").c_str()); (void)r0;
  std::string tpath = tdir + "/lists-XXXXXX";
  std::vector<char> tbuf(tpath.begin(), tpath.end()); tbuf.push_back(0);
  char * tmpl = tbuf.data();
  int fd = mkstemp(tmpl);
  if (fd < 0) { out.verdict = "harness-error"; out.detail = "mkstemp"; return out; }
  std::string t = plan.text();
  ssize_t w = ::write(fd, t.data(), t.size()); (void)w; close(fd);
  std::string cmd = self_exe() + " lists-child " + tmpl + " 2>/dev/null";
  FILE * p = popen(cmd.c_str(), "r");
  std::string res; char buf[1024];
  while (p && fgets(buf, sizeof buf, p)) res += buf;
  int st = p ? pclose(p) : -1;
  unlink(tmpl);
  tr.adds(res); tr.add((u64)st);
  out.ctr["child_processes"]++;
  // the child prints: RESULT <accepted|error> n_iso n_bkg n_modes init_ok
  std::string sigctx = "lists " + fault_kinds(plan);
  if (res.find("RESULT ") == std::string::npos) {
    int code = WIFEXITED(st) ? WEXITSTATUS(st) : -1;
    std::string how = WIFSIGNALED(st) ? "signal " + std::to_string(WTERMSIG(st)) : "exit status " + std::to_string(code);
    if (check) out.fail("C15", "crash", "list-loader-crash " + sigctx + " " + how, "the process loading the damaged catalogue list died: " + how + " " + res.substr(0, 200));
  } else {
    out.ctr[res.find("RESULT error") != std::string::npos ? "loader_raised_error" : "loader_accepted"]++;
  }
  for (const Op & op : plan.ops) if (op.k != "src" && op.k != "use") out.ctr["fault_" + op.k]++;
  out.cover.push_back(sigctx);
  out.trace = tr.h;
  return out;
}

// ---- plan generators -------------------------------------------------------------------------------
void gen_faults(Rng & r, Plan & p, size_t approx_size, bool allow_inflight)
{
  int nf = r.chance(0.7) ? 1 : 2;
  if (r.chance(0.04)) nf = 0; // the control: the writer's file as it is must load and be usable
  for (int i = 0; i < nf; i++) {
    Op o; u64 d = r.below(100);
    // header lines, counts and separators live at the front: bias half of the positions there
    i64 pos = r.chance(0.5) ? (i64)r.below(std::min<u64>(approx_size, 200)) : (i64)r.below(approx_size + 1);
    if (d < 22) { o.k = "trunc"; o.a = {(i64)r.below(approx_size + 1)}; }
    else if (d < 40) { o.k = "flip"; o.a = {pos, (i64)r.below(255)}; }
    else if (d < 62) { o.k = "setbyte"; o.a = {pos, (i64)r.below(sizeof(INTERESTING))}; }
    else if (d < 69) { o.k = "zero"; o.a = {r.chance(0.5) ? (pos / 512) * 512 : pos, r.chance(0.5) ? 512 : r.range(1, 64)}; }
    else if (d < 76) { o.k = "drop"; o.a = {r.chance(0.5) ? (pos / 512) * 512 : pos, r.chance(0.5) ? 512 : r.range(1, 64)}; }
    else if (d < 82) { o.k = "dup"; o.a = {r.chance(0.5) ? (pos / 512) * 512 : pos, r.chance(0.5) ? 512 : r.range(1, 64)}; }
    else if (d < 88) { o.k = "dropline"; o.a = {(i64)r.below(60)}; }
    else if (d < 91) { o.k = "dupline"; o.a = {(i64)r.below(60)}; }
    else if (d < 92) { o.k = "rep"; o.a = {(i64)r.below(approx_size + 1), r.range(1, 48), (i64)std::exp(r.unit() * std::log(40000.0)) + 8}; }
    else if (d < 95) { o.k = "tok"; o.a = {(i64)r.below(4000), (i64)r.below(16), (i64)r.chance(0.6)}; }
    else if (d < 98) { o.k = "splice"; o.a = {(i64)r.below(approx_size + 1), (i64)r.below(9), r.chance(0.5) ? r.range(1, 12) : r.range(13, 600), (i64)r.chance(0.6)}; }
    else { o.k = "empty"; }
    p.ops.push_back(o);
  }
  if (allow_inflight && r.chance(0.15)) { Op o; o.k = "rfault"; o.a = {r.chance(0.5) ? 1 : 3, r.range(0, 12)}; p.ops.push_back(o); }
}

/// thorough tier: the first block of run indices sweeps *every* truncation offset of the sample files
Plan gen_files_events(u64 seed, u64 idx, const RunCtx & ctx)
{
  Plan p; p.suite = "files-events"; p.seed = seed; p.idx = idx;
  Rng r(hmix(hmix(seed, hstr("files-events")), idx));
  Op s; s.k = "src"; s.a = {0, (i64)r.below(6), (i64)r.below(4)};
  size_t sz = 400 + 600 * (size_t)(s.a[2] % 4);
  if (ctx.tier == "thorough" && idx < 4000) {
    s.a = {0, (i64)(idx / 2000), 1};
    p.ops.push_back(s);
    Op t; t.k = "trunc"; t.a = {(i64)(idx % 2000)}; p.ops.push_back(t);
    p.hdr["sweep"] = "truncation";
  } else {
    p.ops.push_back(s);
    gen_faults(r, p, sz, true);
  }
  Op u; u.k = "use"; u.a = {r.chance(0.7) ? 0 : r.range(0, 8), r.chance(0.7) ? 0 : r.range(1, 8)};
  p.ops.push_back(u);
  return p;
}

Plan gen_files_ga(u64 seed, u64 idx, const RunCtx & ctx)
{
  Plan p; p.suite = "files-ga"; p.seed = seed; p.idx = idx;
  Rng r(hmix(hmix(seed, hstr("files-ga")), idx));
  Op s; s.k = "src"; s.a = {(i64)(1 + r.below(2)), (i64)r.below(6), (i64)r.below(2)};
  size_t sz = s.a[1] >= 4 ? 200 : (s.a[1] % 3 == 0 ? 600 : (s.a[1] % 3 == 1 ? 3300 : 8600));
  if (ctx.tier == "thorough" && idx < 2400) {
    // every truncation offset of the two small tables (ocdf: 529 bytes, pdf: ~700 bytes)
    s.a = {(i64)(1 + idx / 1200), 0, 0};
    p.ops.push_back(s);
    Op t; t.k = "trunc"; t.a = {(i64)(idx % 1200)}; p.ops.push_back(t);
    p.hdr["sweep"] = "truncation";
    return p;
  }
  p.ops.push_back(s);
  gen_faults(r, p, sz, true);
  // the loader is re-entered on the same object: valid file, another valid file, the damaged one again, a torn one
  int na = r.chance(0.5) ? (int)r.range(1, 2) : 0;
  for (int i = 0; i < na; i++) { Op a; a.k = "again"; a.a = {(i64)r.below(4), (i64)r.below(9000)}; p.ops.push_back(a); }
  return p;
}

Plan gen_files_lists(u64 seed, u64 idx, const RunCtx &)
{
  Plan p; p.suite = "files-lists"; p.seed = seed; p.idx = idx;
  Rng r(hmix(hmix(seed, hstr("files-lists")), idx));
  Op s; s.k = "src"; s.a = {3, (i64)r.below(3), 0};
  p.ops.push_back(s);
  size_t sz = s.a[1] == 0 ? 350 : (s.a[1] == 1 ? 520 : 2400);
  gen_faults(r, p, sz, false);
  return p;
}

std::vector<Op> simplify_files(const Op & op)
{
  std::vector<Op> v;
  if ((op.k == "zero" || op.k == "drop" || op.k == "dup") && op.arg(1) > 1) { Op c = op; c.a[1] = 1; v.push_back(c); }
  if (op.k == "use" && (op.arg(0) || op.arg(1))) { Op c = op; c.a = {0, 0}; v.push_back(c); }
  return v;
}
bool pinned_files(const Op & op) { return op.k == "src" || op.k == "use"; }

SuiteRegistrar reg_fe({"files-events", "storage faults on event files -> event_reader (C15)", gen_files_events, run_files_events, simplify_files, pinned_files});
SuiteRegistrar reg_fg({"files-ga", "storage faults on gA tables -> dbd_gA::initialize + shoot (C15)", gen_files_ga, run_files_ga, simplify_files, pinned_files});
SuiteRegistrar reg_fl({"files-lists", "storage faults on catalogue lists -> first-use loaders in a fresh process (C15)", gen_files_lists, run_files_lists, simplify_files,
                       pinned_files});

} // namespace

// ---- the exec'ed child for catalogue lists ---------------------------------------------------------
int cmd_lists_child(const std::string & planfile)
{
  std::ifstream f(planfile.c_str()); std::ostringstream o; o << f.rdbuf();
  Plan plan; std::string err;
  if (!Plan::parse(o.str(), plan, err)) { printf("HARNESS bad plan\n"); return 3; }
  i64 which = 0;
  for (const Op & op : plan.ops) if (op.k == "src") which = op.arg(1);
  const char * names[3] = {"dbd_isotopes.lis", "background_isotopes.lis", "dbd_modes.lis"};
  std::string repo = repo_dir();
  fs::reset();
  Outcome dummy;
  for (int i = 0; i < 3; i++) {
    std::string d = read_real(repo + "/resources/description/" + names[i]);
    if (i == which) d = damage(d, plan, dummy);
    fs::put(fs::root() + "/res/description/" + names[i], d);
  }
  setenv("BXDECAY0_RESOURCE_DIR", (fs::root() + "/res").c_str(), 1);
  size_t n1 = 0, n2 = 0, n3 = 0; int init_ok = 0; bool threw = false;
  try {
    n1 = bxdecay0::dbd_isotopes().size();
    n2 = bxdecay0::background_isotopes().size();
    const auto & m = bxdecay0::dbd_modes();
    n3 = m.size();
    // use what was loaded the way the library does
    for (auto & kv : m) {
      (void)bxdecay0::dbd_mode_label(kv.first); (void)bxdecay0::dbd_mode_description(kv.first); (void)bxdecay0::dbd_legacy_mode(kv.first);
      (void)bxdecay0::dbd_mode_from_label(kv.second.unique_label);
    }
    for (int mode : {1, 4, 11, 20}) {
      bxdecay0::decay0_generator g;
      g.set_decay_category(bxdecay0::decay0_generator::DECAY_CATEGORY_DBD);
      g.set_decay_isotope("Mo100"); g.set_decay_dbd_level(0);
      g.set_decay_dbd_mode(static_cast<bxdecay0::dbd_mode_type>(mode));
      SimRandom r(5); r.begin_op(3000000);
      try { g.initialize(r); bxdecay0::event ev; g.shoot(r, ev); init_ok++; } catch (std::exception &) {}
    }
  } catch (std::exception & e) { threw = true; }
  printf("RESULT %s %zu %zu %zu %d\n", threw ? "error" : "accepted", n1, n2, n3, init_ok);
  fflush(stdout);
  return 0;
}

} // namespace sim
