#include "configs.h"
#include "simrandom.h"
#include "sched.h"
#include <bxdecay0/bb_utils.h>
#include <bxdecay0/mdl_event_op.h>
#include <bxdecay0/particle_utils.h>
#include <algorithm>
#include <chrono>
#include <cstdio>
#include <fstream>
#include <fcntl.h>
#include <sys/wait.h>
#include <unistd.h>

namespace sim {

std::string GenCfg::key() const
{
  std::ostringstream o;
  o << cat << ":" << nuc << ":" << level << ":" << mode << ":" << emin_keV << ":" << emax_keV << ":" << mdl << (debug ? ":debug" : "");
  return o.str();
}

const std::vector<std::string> & bkg_names()
{
  // read by the harness itself (first word of every non-comment line of the published list), NOT through
  // bxdecay0::background_isotopes(): plan generation must not initialise the library's function-local
  // statics, or a freshly forked process would no longer exercise their first use
  static std::vector<std::string> v;
  if (v.empty()) {
    std::ifstream f((repo_dir() + "/resources/description/background_isotopes.lis").c_str());
    std::string line;
    while (std::getline(f, line)) {
      std::istringstream ls(line); std::string w;
      if ((ls >> w) && w[0] != '#') v.push_back(w);
    }
    std::sort(v.begin(), v.end());
    v.erase(std::unique(v.begin(), v.end()), v.end());
  }
  return v;
}

static std::string catalogue_path()
{
  const char * e = getenv("BXSIM_CATALOGUE");
  return e ? std::string(e) : verif_dir() + "/data/dbd_catalogue.txt";
}

const std::vector<DbdEntry> & dbd_catalogue()
{
  static std::vector<DbdEntry> v;
  static bool loaded = false;
  if (!loaded) {
    loaded = true;
    std::ifstream f(catalogue_path().c_str());
    std::string line;
    while (std::getline(f, line)) {
      if (line.empty() || line[0] == '#') continue;
      std::istringstream ls(line);
      DbdEntry e;
      if (ls >> e.nuc >> e.level >> e.mode >> e.init_draws >> e.init_us >> e.q_keV >> e.e0_keV >> e.qng_calls >> e.qng_fails) v.push_back(e);
    }
  }
  return v;
}

const std::vector<DbdEntry> & dbd_cheap()
{
  static std::vector<DbdEntry> v;
  if (v.empty()) for (auto & e : dbd_catalogue()) if (e.qng_calls == 0) v.push_back(e); // no quadrature at initialise: microseconds
  return v;
}

const std::vector<DbdEntry> & dbd_quad()
{
  static std::vector<DbdEntry> v;
  if (v.empty()) for (auto & e : dbd_catalogue()) if (e.qng_calls > 0 && e.qng_calls < 1500) v.push_back(e);
  return v;
}

const std::vector<DbdEntry> & dbd_quad_missing()
{
  static std::vector<DbdEntry> v;
  if (v.empty()) for (auto & e : dbd_quad()) if (e.qng_fails > 0) v.push_back(e);
  return v;
}

bool mode_supports_window(int mode)
{
  // the documented window-capable modes (README, bb_utils.cc dbd_modes_with_esum_range); kept as harness
  // data so that plan generation does not touch library statics. `bxsim catalogue` cross-checks it.
  static const std::set<int> w = {4, 5, 6, 8, 10, 13, 14, 15, 16, 19};
  return w.count(mode) != 0;
}

int mdl_single_presets() { return 6; }
int mdl_presets() { return 11; }
std::vector<int> preset_parts(int preset)
{
  // 7..11: two operations on one generator; they do not commute (each consumes deviates and/or turns the whole event)
  static const int PAIRS[5][2] = {{1, 2}, {2, 1}, {6, 1}, {3, 6}, {5, 4}};
  if (preset <= 0) return {};
  if (preset <= 6) return {preset};
  const int * q = PAIRS[(preset - 7) % 5];
  return {q[0], q[1]};
}

namespace {
// operations of the application's own: i_event_op is a public interface, the shipped momentum-direction-lock is one implementation of it
struct MirrorOp : public bxdecay0::i_event_op
{
  std::string name() const override { return "mirror"; }
  void operator()(bxdecay0::i_random &, bxdecay0::event & ev) override
  {
    for (auto & p : ev.grab_particles()) p.set_momentum(-p.get_px(), -p.get_py(), -p.get_pz());
  }
  void smart_dump(std::ostream & out, const std::string & indent) const override { out << indent << "mirror\n"; }
};
struct SpinOp : public bxdecay0::i_event_op
{
  std::string name() const override { return "spin"; }
  void operator()(bxdecay0::i_random & prng, bxdecay0::event & ev) override
  {
    double a = 6.283185307179586 * prng(), c = std::cos(a), s = std::sin(a);
    for (auto & p : ev.grab_particles()) p.set_momentum(c * p.get_px() - s * p.get_py(), s * p.get_px() + c * p.get_py(), p.get_pz());
  }
  void smart_dump(std::ostream & out, const std::string & indent) const override { out << indent << "spin\n"; }
};
} // namespace

std::shared_ptr<bxdecay0::i_event_op> make_mdl(int preset)
{
  if (preset == 5) return std::make_shared<MirrorOp>();
  if (preset == 6) return std::make_shared<SpinOp>();
  auto p = std::make_shared<bxdecay0::momentum_direction_lock_event_op>(false);
  using bxdecay0::momentum_direction_lock_event_op;
  switch (preset) {
  case 1: // rotate the whole event so that the first electron points into a cone
    p->set(bxdecay0::ELECTRON, 0, 0.3, 1.1, 0.2, false);
    break;
  case 2: // selection mode: every gamma is forced into the cone
    p->set(bxdecay0::GAMMA, -1, 2.0, 0.7, 0.1, false);
    break;
  case 3: // rectangular cut on the first particle of any species
    p->set_with_aperture_rectangular_cut(bxdecay0::INVALID_PARTICLE, 0, 1.0, 0.5, 0.3, 0.1, false);
    break;
  default: // degree-based entry point used by the CLI
  {
    momentum_direction_lock_event_op::config_type c;
    c.particle_label = "all"; c.target_particle_rank = 1; c.cone_phi_degree = 30; c.cone_theta_degree = 60; c.cone_aperture_degree = 10;
    p->set(c);
  }
  }
  return p;
}

void apply_cfg(bxdecay0::decay0_generator & g, const GenCfg & c)
{
  if (c.debug) g.set_debug(true);
  g.set_decay_category(c.cat == 1 ? bxdecay0::decay0_generator::DECAY_CATEGORY_DBD : bxdecay0::decay0_generator::DECAY_CATEGORY_BACKGROUND);
  g.set_decay_isotope(c.nuc);
  if (c.cat == 1) {
    g.set_decay_dbd_level(c.level);
    g.set_decay_dbd_mode(static_cast<bxdecay0::dbd_mode_type>(c.mode));
    if (c.has_window()) {
      double lo = c.emin_keV != -1 ? c.emin_keV * 1e-3 : 0.0;
      double hi = c.emax_keV != -1 ? c.emax_keV * 1e-3 : 5000.0;
      g.set_decay_dbd_esum_range(lo, hi);
    }
  }
  for (int part : preset_parts(c.mdl)) g.add_operation(make_mdl(part));
}

void apply_cfg(bxdecay0::decay0_generator & g, const GenCfg & c, const std::function<std::shared_ptr<bxdecay0::i_event_op>(int)> & own)
{
  GenCfg c2 = c; c2.mdl = 0;
  apply_cfg(g, c2);
  for (int part : preset_parts(c.mdl)) { auto op = own ? own(part) : nullptr; g.add_operation(op ? op : make_mdl(part)); }
}

bool EventRec::operator==(const EventRec & o) const
{
  if (label != o.label || time != o.time || parts.size() != o.parts.size()) return false;
  for (size_t i = 0; i < parts.size(); i++) {
    const PartRec & a = parts[i], & b = o.parts[i];
    if (a.code != b.code || a.t != b.t || a.px != b.px || a.py != b.py || a.pz != b.pz) return false;
  }
  return true;
}

EventRec EventRec::of(const bxdecay0::event & e)
{
  EventRec r;
  r.label = e.get_generator();
  r.time = dbits(e.get_time());
  for (const auto & p : e.get_particles()) {
    PartRec q;
    q.code = (int)p.get_code(); q.t = dbits(p.get_time());
    q.px = dbits(p.get_px()); q.py = dbits(p.get_py()); q.pz = dbits(p.get_pz());
    r.parts.push_back(q);
  }
  return r;
}

u64 EventRec::hash() const
{
  u64 h = hstr(label);
  h = hmix(h, time);
  for (auto & p : parts) { h = hmix(h, (u64)p.code); h = hmix(h, p.t); h = hmix(h, p.px); h = hmix(h, p.py); h = hmix(h, p.pz); }
  return h;
}

static double from_bits(u64 u) { double d; std::memcpy(&d, &u, 8); return d; }

std::string EventRec::brief() const
{
  std::ostringstream o;
  o.precision(17);
  o << label << " t=" << from_bits(time) << " n=" << parts.size();
  for (size_t i = 0; i < parts.size() && i < 6; i++)
    o << " [" << parts[i].code << " " << from_bits(parts[i].t) << " " << from_bits(parts[i].px) << " " << from_bits(parts[i].py) << " "
      << from_bits(parts[i].pz) << "]";
  return o.str();
}

std::string first_difference(const EventRec & a, const EventRec & b)
{
  std::ostringstream o;
  o.precision(17);
  if (a.label != b.label) { o << "label '" << a.label << "' vs '" << b.label << "'"; return o.str(); }
  if (a.time != b.time) { o << "event time " << from_bits(a.time) << " vs " << from_bits(b.time); return o.str(); }
  if (a.parts.size() != b.parts.size()) { o << "particle count " << a.parts.size() << " vs " << b.parts.size(); return o.str(); }
  for (size_t i = 0; i < a.parts.size(); i++) {
    const PartRec & x = a.parts[i], & y = b.parts[i];
    if (x.code != y.code) { o << "particle " << i << " code " << x.code << " vs " << y.code; return o.str(); }
    if (x.t != y.t) { o << "particle " << i << " time " << from_bits(x.t) << " vs " << from_bits(y.t); return o.str(); }
    if (x.px != y.px || x.py != y.py || x.pz != y.pz) {
      o << "particle " << i << " momentum (" << from_bits(x.px) << "," << from_bits(x.py) << "," << from_bits(x.pz) << ") vs (" << from_bits(y.px)
        << "," << from_bits(y.py) << "," << from_bits(y.pz) << ")";
      return o.str();
    }
  }
  return "";
}

std::string malformed_reason(const bxdecay0::event & e, const std::string & expected_label)
{
  const auto & ps = e.get_particles();
  if (ps.empty()) return "no-particle";
  if (ps.size() > 100) return "more-than-100-particles";
  if (e.get_generator() != expected_label) return "label-mismatch";
  if (!(e.get_time() == 0.0)) return "event-time-not-zero";
  double last = 0.0;
  for (size_t i = 0; i < ps.size(); i++) {
    const auto & p = ps[i];
    int c = (int)p.get_code();
    if (c != bxdecay0::GAMMA && c != bxdecay0::ELECTRON && c != bxdecay0::POSITRON && c != bxdecay0::ALPHA) return "bad-species";
    if (!std::isfinite(p.get_px()) || !std::isfinite(p.get_py()) || !std::isfinite(p.get_pz())) return "nonfinite-momentum";
    double m = bxdecay0::particle_mass_MeV(p.get_code());
    double pp = p.get_p();
    double T = std::sqrt(pp * pp + m * m) - m;
    if (!(T <= 20.0)) return "kinetic-energy-above-20MeV";
    double t = p.get_time();
    if (!std::isfinite(t)) return "nonfinite-time";
    if (t < 0.0) return "negative-time";
    if (t < last) return "decreasing-time";
    last = t;
  }
  return "";
}

// ---- catalogue builder: dry initialise over the grid, in parallel children ---------------------
int cmd_catalogue(std::map<std::string, std::string> & args)
{
  std::string out = args.count("out") ? args["out"] : catalogue_path();
  for (int m = 0; m <= 25; m++)
    if (mode_supports_window(m) != bxdecay0::dbd_supports_esum_range(static_cast<bxdecay0::dbd_mode_type>(m)))
      printf("WARNING: harness window-capable set differs from the library for mode %d\n", m);
  std::vector<std::string> isos;
  for (auto & n : bxdecay0::dbd_isotopes()) isos.push_back(n);
  int W = 16;
  std::vector<pid_t> kids;
  std::vector<std::string> parts;
  for (int w = 0; w < W; w++) {
    std::string part = out + ".part" + std::to_string(w);
    parts.push_back(part);
    pid_t pid = fork();
    if (pid == 0) {
      int dn = open("/dev/null", 1); dup2(dn, 2);
      FILE * f = fopen(part.c_str(), "w");
      for (size_t i = 0; i < isos.size(); i++) {
        if ((int)(i % (size_t)W) != w) continue;
        for (int level = 0; level <= 12; level++) {
          for (int mode = 1; mode <= 20; mode++) {
            bxdecay0::decay0_generator g;
            GenCfg c; c.cat = 1; c.nuc = isos[i]; c.level = level; c.mode = mode;
            SimRandom r(hstr("catalogue"));
            r.begin_op(10000000);
            auto t0 = std::chrono::steady_clock::now();
            i64 q0 = sched::total_qng_calls(), f0 = sched::total_qng_fails();
            try {
              apply_cfg(g, c);
              g.initialize(r);
            } catch (std::exception &) { continue; }
            auto t1 = std::chrono::steady_clock::now();
            long us = (long)std::chrono::duration_cast<std::chrono::microseconds>(t1 - t0).count();
            fprintf(f, "%s %d %d %llu %ld %.3f %.3f %lld %lld\n", isos[i].c_str(), level, mode, (unsigned long long)r.op_draws(), us,
                    g.get_bb_params().Qbb * 1000.0, g.get_bb_params().e0 * 1000.0, (long long)(sched::total_qng_calls() - q0),
                    (long long)(sched::total_qng_fails() - f0));
            fflush(f);
          }
        }
      }
      fclose(f);
      _exit(0);
    }
    kids.push_back(pid);
  }
  for (pid_t k : kids) { int st; waitpid(k, &st, 0); }
  std::vector<std::string> lines;
  for (auto & p : parts) {
    std::ifstream f(p.c_str()); std::string l;
    while (std::getline(f, l)) lines.push_back(l);
    unlink(p.c_str());
  }
  std::sort(lines.begin(), lines.end());
  std::ofstream o(out.c_str());
  o << "# accepted double-beta (isotope level mode) triples found by dry initialisation; columns: isotope level mode init_draws init_us Qbb_keV e0_keV qng_calls qng_fails\n";
  for (auto & l : lines) o << l << "\n";
  printf("catalogue: %zu accepted triples written to %s\n", lines.size(), out.c_str());
  return 0;
}

// ---- probe: print the cost of initialise/shoot for one configuration over several streams ----
int cmd_probe(std::map<std::string, std::string> & args)
{
  GenCfg c;
  c.cat = std::stoi(args.count("cat") ? args["cat"] : "1");
  c.nuc = args["nuc"]; c.level = std::stoi(args.count("level") ? args["level"] : "0");
  c.mode = std::stoi(args.count("mode") ? args["mode"] : "1");
  c.emin_keV = std::stoll(args.count("emin") ? args["emin"] : "-1");
  c.emax_keV = std::stoll(args.count("emax") ? args["emax"] : "-1");
  int n = std::stoi(args.count("n") ? args["n"] : "5");
  for (int i = 0; i < n; i++) {
    bxdecay0::decay0_generator g;
    SimRandom r(hmix(hstr("probe"), (u64)i));
    r.begin_op(2000000000ULL);
    try {
      apply_cfg(g, c);
      g.initialize(r);
      printf("stream %d: init draws=%llu toallevents=%g", i, (unsigned long long)r.op_draws(), g.get_to_all_events());
      bxdecay0::event ev;
      u64 mx = 0, tot = 0;
      for (int k = 0; k < 20; k++) { r.begin_op(2000000000ULL); g.shoot(r, ev); mx = std::max<u64>(mx, r.op_draws()); tot += r.op_draws(); }
      printf(" shots: mean draws=%llu max=%llu\n", (unsigned long long)(tot / 20), (unsigned long long)mx);
    } catch (std::exception & e) { printf("stream %d: threw %s after %llu draws\n", i, e.what(), (unsigned long long)r.op_draws()); }
  }
  return 0;
}

} // namespace sim
