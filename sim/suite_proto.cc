// Protocol suite (property C09): random sequences of public API calls on a generator, checked
// call by call against an executable reference state machine. Failed initialisations are
// produced by invalid configurations, by I/O faults on gA data (absent / torn file, EIO while
// reading), by cancellation of the deviate source inside initialise and by allocation failure.
//
//   op new       g
//   op set_cat   g v            | set_iso g ; name | set_ver g ; s | set_level g v | set_mode g v
//   op set_label g ; label      | set_range g lo_keV hi_keV (-1 = NaN)
//   op add_op    g preset       (0 = null pointer)
//   op init      g stream cancel_at allocfail_at eio_at_read
//   op shoot     g stream slot cancel_at
//   op reset     g            | dump g (smart_dump + read-only accessors: must change nothing) | set_debug g 0/1
//   op ga_put    nuc proc dataset cut     (install a gA dataset in SimFS; cut>=0: torn at byte cut)
//   op ga_del    nuc proc
//
// What is *not* asserted (so that the model asks no more than the statement): is_debug() after
// reset (management state); has_decay_version() after an initialise attempt (the library stamps its
// own version there); reset() on a generator that is not initialised (documented early return).
#include "configs.h"
#include "simfs.h"
#include "simrandom.h"
#include <bxdecay0/bb_utils.h>
#include <fstream>
#include <memory>

namespace sim {

std::string ga_dataset(const std::string & name); // seams: committed datasets (data/ga/<name>/tab_ocdf.data)
std::string ga_root();

namespace {

const char * GA_NUC[4] = {"Se82", "Mo100", "Cd116", "Nd150"};
const char * GA_PROC[4] = {"g0", "g2", "g22", "g4"};
const char * GA_SETS[3] = {"small", "medium", "steep"};

std::string ga_path(int nuc, int proc)
{
  return ga_root() + "/data/dbd_gA/v1.0/" + GA_NUC[nuc & 3] + "/" + GA_PROC[proc & 3] + "/tab_ocdf.data";
}

struct Model
{
  bool init = false;
  int cat = 0;
  std::string iso;
  std::string ver; bool ver_known = true;
  int level = -1;
  int mode = 0;
  double emin = NAN, emax = NAN;
  std::vector<int> ops; // presets
  size_t count = 0;
  std::string key() const
  {
    std::ostringstream o;
    o << cat << "|" << iso << "|" << level << "|" << mode << "|" << dbits(emin) << "|" << dbits(emax) << "|";
    for (int p : ops) o << p << ",";
    return o.str();
  }
};

void apply_model(bxdecay0::decay0_generator & g, const Model & m)
{
  g.set_decay_category(static_cast<bxdecay0::decay0_generator::decay_category_type>(m.cat));
  g.set_decay_isotope(m.iso);
  g.set_decay_dbd_level(m.level);
  g.set_decay_dbd_mode(static_cast<bxdecay0::dbd_mode_type>(m.mode));
  g.set_decay_dbd_esum_range(m.emin, m.emax);
  for (int p : m.ops) g.add_operation(make_mdl(p));
}

bool same_double(double a, double b) { return (std::isnan(a) && std::isnan(b)) || a == b; }

struct Pristine { bool ok = false; bool budget = false; std::string err; };
struct CanonEv { bool ok = false; bool budget = false; EventRec ev; std::string err; };

u64 g_env_epoch = 0; // bumps whenever the durable environment (gA files) changes: cache key part

Pristine pristine_init(const Model & m)
{
  static std::map<std::string, Pristine> cache;
  std::string key = m.key() + "@" + std::to_string(g_env_epoch);
  auto it = cache.find(key);
  if (it != cache.end()) return it->second;
  if (cache.size() > 5000) cache.clear();
  Pristine p;
  fs::Faults saved = fs::faults();
  fs::faults() = fs::Faults(); // the pristine instance sees the same durable state, no transient fault
  try {
    bxdecay0::decay0_generator g;
    apply_model(g, m);
    SimRandom r(hmix(hstr("pristine-init"), hstr(m.key())));
    r.begin_op(3000000);
    g.initialize(r);
    p.ok = true;
  } catch (SimBudget &) { p.budget = true; }
  catch (std::exception & e) { p.err = e.what(); }
  fs::faults() = saved;
  return cache[key] = p;
}

CanonEv canonical_event(const Model & m, i64 stream)
{
  static std::map<std::string, CanonEv> cache;
  std::string key = m.key() + "@" + std::to_string(g_env_epoch) + "#" + std::to_string(stream);
  auto it = cache.find(key);
  if (it != cache.end()) return it->second;
  if (cache.size() > 5000) cache.clear();
  CanonEv c;
  fs::Faults saved = fs::faults();
  fs::faults() = fs::Faults();
  try {
    bxdecay0::decay0_generator g;
    apply_model(g, m);
    SimRandom ri(hmix(hstr("pristine-init"), hstr(m.key())));
    ri.begin_op(3000000);
    g.initialize(ri);
    SimRandom rs(hmix(hstr("proto-shot"), (u64)stream));
    rs.begin_op(3000000);
    bxdecay0::event ev;
    g.shoot(rs, ev);
    c.ok = true; c.ev = EventRec::of(ev);
  } catch (SimBudget &) { c.budget = true; }
  catch (std::exception & e) { c.err = e.what(); }
  fs::faults() = saved;
  return cache[key] = c;
}

std::string check_getters(const bxdecay0::decay0_generator & g, const Model & m)
{
  std::ostringstream o;
  typedef bxdecay0::decay0_generator G;
  if (g.is_initialized() != m.init) o << "is_initialized()=" << g.is_initialized() << " model " << m.init << "; ";
  if ((int)g.get_decay_category() != m.cat) o << "get_decay_category()=" << (int)g.get_decay_category() << " model " << m.cat << "; ";
  if (g.has_decay_category() != (m.cat != 0)) o << "has_decay_category() wrong; ";
  if (g.is_dbd() != (m.cat == G::DECAY_CATEGORY_DBD)) o << "is_dbd() wrong; ";
  if (g.is_background() != (m.cat == G::DECAY_CATEGORY_BACKGROUND)) o << "is_background() wrong; ";
  if (g.get_decay_isotope() != m.iso) o << "get_decay_isotope()='" << g.get_decay_isotope() << "' model '" << m.iso << "'; ";
  if (g.has_decay_isotope() != !m.iso.empty()) o << "has_decay_isotope() wrong; ";
  if (m.ver_known && g.has_decay_version() != !m.ver.empty()) o << "has_decay_version()=" << g.has_decay_version() << " model " << !m.ver.empty() << "; ";
  if (g.get_decay_dbd_level() != m.level) o << "get_decay_dbd_level()=" << g.get_decay_dbd_level() << " model " << m.level << "; ";
  if (g.has_decay_dbd_level() != (m.level != -1)) o << "has_decay_dbd_level() wrong; ";
  if ((int)g.get_decay_dbd_mode() != m.mode) o << "get_decay_dbd_mode()=" << (int)g.get_decay_dbd_mode() << " model " << m.mode << "; ";
  if (g.has_decay_dbd_mode() != (m.mode != 0)) o << "has_decay_dbd_mode() wrong; ";
  if (!same_double(g.get_decay_dbd_esum_range_lower(), m.emin)) o << "esum_range_lower=" << g.get_decay_dbd_esum_range_lower() << " model " << m.emin << "; ";
  if (!same_double(g.get_decay_dbd_esum_range_upper(), m.emax)) o << "esum_range_upper=" << g.get_decay_dbd_esum_range_upper() << " model " << m.emax << "; ";
  if (g.has_decay_dbd_esum_range() != (!std::isnan(m.emin) && !std::isnan(m.emax))) o << "has_decay_dbd_esum_range() wrong; ";
  if (g.get_operations().size() != m.ops.size()) o << "get_operations().size()=" << g.get_operations().size() << " model " << m.ops.size() << "; ";
  if (g.get_event_count() != m.count) o << "get_event_count()=" << g.get_event_count() << " model " << m.count << "; ";
  if (!g.has_next()) o << "has_next() false; ";
  return o.str();
}

/// everything the public observers tell about the working data (beyond the configuration getters of check_getters)
std::string working_data(const bxdecay0::decay0_generator & g)
{
  std::ostringstream o;
  o << "toallevents=" << dbits(g.get_to_all_events()) << " ";
  const bxdecay0::bbpars & bp = g.get_bb_params();
  bp.dump(o, "");
  double s1 = 0, s2 = 0; size_t n1 = 0, n2 = 0;
  for (unsigned i = 0; i < bxdecay0::bbpars::SPSIZE; i++) { s1 += bp.spthe1[i]; s2 += bp.spthe2[i]; if (bp.spthe1[i] != 0) n1++; if (bp.spthe2[i] != 0) n2++; }
  o << " spthe1:" << n1 << "/" << dbits(s1) << " spthe2:" << n2 << "/" << dbits(s2);
  return o.str();
}

std::string state_class(const Model & m, const std::string & last)
{
  std::string s = m.init ? "I" : "U";
  s += m.cat == 0 ? "-nocat" : (m.cat == 1 ? "-dbd" : "-bkg");
  s += m.iso.empty() ? "-noiso" : "-iso";
  if (m.mode >= 21) s += "-gA"; else if (m.mode > 0) s += "-mode"; else s += "-nomode";
  if (!std::isnan(m.emin) || !std::isnan(m.emax)) s += "-win";
  if (!m.ops.empty()) s += "-ops";
  s += "/after-" + last;
  return s;
}

const int NG = 2, NS = 2;

Outcome run_proto(const Plan & plan, const RunCtx & ctx)
{
  Outcome out;
  Trace tr;
  const bool check = ctx.prop == "C09";
  std::unique_ptr<bxdecay0::decay0_generator> gen[NG];
  Model model[NG];
  std::string last[NG];
  std::unique_ptr<bxdecay0::event> slot[NS];
  for (int i = 0; i < NG; i++) { gen[i].reset(new bxdecay0::decay0_generator); last[i] = "new"; }
  for (int i = 0; i < NS; i++) slot[i].reset(new bxdecay0::event);
  fs::reset();
  g_env_epoch = hmix(plan.hash(), 1); // a fresh durable environment per run
  std::set<std::string> cover;
  i64 & calls = out.ctr["api_calls"];

  auto violation = [&](size_t oi, const std::string & cls, const std::string & what) {
    if (!check) return;
    out.fail("C09", cls, cls, "op#" + std::to_string(oi) + " " + plan.ops[oi].k + ": " + what);
  };

  for (size_t oi = 0; oi < plan.ops.size() && !out.violated(); oi++) {
    const Op & op = plan.ops[oi];
    if (op.k == "ga_put" || op.k == "ga_del") {
      // the durable environment may only change while no instance has tables loaded from it:
      // otherwise "a fresh instance with the same settings" would read different data than the
      // instance under test did, and the comparison would be meaningless
      bool ga_live = false;
      for (int i = 0; i < NG; i++) if (model[i].init && model[i].mode >= 21) ga_live = true;
      if (ga_live) { out.ctr["ops_skipped"]++; continue; }
    }
    if (op.k == "ga_put") {
      std::string data = ga_dataset(GA_SETS[(size_t)(op.arg(2) % 3)]);
      i64 cut = op.arg(3, -1);
      if (cut >= 0 && !data.empty()) { data = data.substr(0, (size_t)(cut % (i64)data.size())); out.ctr["fault_torn_ga_file_installed"]++; }
      fs::put(ga_path((int)op.arg(0), (int)op.arg(1)), data);
      g_env_epoch = hmix(g_env_epoch, hmix((u64)oi, 7));
      continue;
    }
    if (op.k == "ga_del") {
      fs::remove(ga_path((int)op.arg(0), (int)op.arg(1)));
      g_env_epoch = hmix(g_env_epoch, hmix((u64)oi, 9));
      continue;
    }
    int gi = (int)(((op.arg(0) % NG) + NG) % NG);
    bxdecay0::decay0_generator & g = *gen[gi];
    Model & m = model[gi];
    std::string outcome = "ok";
    calls++;
    cover.insert(state_class(m, last[gi]) + "/" + op.k);

    if (op.k == "new") {
      gen[gi].reset(); gen[gi].reset(new bxdecay0::decay0_generator);
      m = Model(); last[gi] = "new";
    } else if (op.k == "set_cat" || op.k == "set_iso" || op.k == "set_ver" || op.k == "set_level" || op.k == "set_mode" || op.k == "set_label"
               || op.k == "set_range") {
      bool threw = false; std::string err;
      try {
        if (op.k == "set_cat") g.set_decay_category(static_cast<bxdecay0::decay0_generator::decay_category_type>(op.arg(1) % 3));
        else if (op.k == "set_iso") g.set_decay_isotope(op.str(0));
        else if (op.k == "set_ver") g.set_decay_version(op.str(0));
        else if (op.k == "set_level") g.set_decay_dbd_level((int)op.arg(1));
        else if (op.k == "set_mode") g.set_decay_dbd_mode(static_cast<bxdecay0::dbd_mode_type>(op.arg(1)));
        else if (op.k == "set_label") g.set_decay_dbd_mode_by_label(op.str(0));
        else g.set_decay_dbd_esum_range(op.arg(1) < 0 ? NAN : op.arg(1) * 1e-3, op.arg(2) < 0 ? NAN : op.arg(2) * 1e-3);
      } catch (std::exception & e) { threw = true; err = e.what(); }
      if (m.init) {
        if (!threw) violation(oi, "setter-accepted-after-initialize", "configuration change accepted on an initialised generator");
        outcome = "refused";
      } else {
        if (threw) violation(oi, "setter-refused-before-initialize", "setter threw on an un-initialised generator: " + err);
        if (op.k == "set_cat") m.cat = (int)(op.arg(1) % 3);
        else if (op.k == "set_iso") m.iso = op.str(0);
        else if (op.k == "set_ver") { m.ver = op.str(0); m.ver_known = true; }
        else if (op.k == "set_level") m.level = (int)op.arg(1);
        else if (op.k == "set_mode") m.mode = (int)op.arg(1);
        else if (op.k == "set_label") m.mode = (int)bxdecay0::dbd_mode_from_label(op.str(0));
        else { m.emin = op.arg(1) < 0 ? NAN : op.arg(1) * 1e-3; m.emax = op.arg(2) < 0 ? NAN : op.arg(2) * 1e-3; }
      }
      last[gi] = "set";
    } else if (op.k == "add_op") {
      bool threw = false;
      int preset = (int)op.arg(1);
      try { g.add_operation(preset == 0 ? bxdecay0::event_op_ptr() : make_mdl(preset)); }
      catch (std::exception &) { threw = true; }
      if (m.init) { if (!threw) violation(oi, "add-operation-accepted-after-initialize", "operation registered on an initialised generator"); outcome = "refused"; }
      else if (preset == 0) { outcome = threw ? "refused" : "ignored"; } // a null operation may throw or be ignored; the getter check below catches a registration
      else { if (threw) violation(oi, "add-operation-refused", "valid operation refused before initialisation"); m.ops.push_back(preset); }
      last[gi] = "add_op";
    } else if (op.k == "init") {
      SimRandom r(hmix(hstr("proto-init"), (u64)op.arg(1)));
      r.begin_op(3000000);
      r.cancel_at = op.arg(2, -1);
      fs::begin_op();
      fs::faults() = fs::Faults();
      fs::faults().eio_at_read = op.arg(4, -1);
      i64 eio0 = fs::stats().read_eio;
      std::string err; bool afired = false;
      bool ok = sut_call(op.arg(3, -1), [&] { g.initialize(r); }, err, afired);
      bool eio_fired = fs::stats().read_eio > eio0;
      fs::faults() = fs::Faults();
      if (r.cancelled) out.ctr["fault_cancel_in_init_fired"]++;
      if (afired) out.ctr["fault_alloc_fail_in_init_fired"]++;
      if (eio_fired) out.ctr["fault_read_eio_in_init_fired"]++;
      bool transient = r.cancelled || afired || eio_fired || r.over_budget;
      tr.adds("init"); tr.add(ok);
      if (m.init) {
        if (ok) violation(oi, "double-initialize-accepted", "initialize() succeeded on an already initialised generator");
        outcome = "refused";
      } else {
        Pristine p = pristine_init(m);
        if (ok) {
          if (!p.ok && !p.budget && !transient)
            violation(oi, "initialize-accepted-invalid", "initialize() succeeded but a pristine instance with the same configuration refuses: " + p.err);
          // independent of any other instance: configurations that are invalid by construction, whoever is asked
          {
            std::string why;
            if (m.cat != 1 && m.cat != 2) why = "no decay category";
            else if (m.iso.empty()) why = "no isotope";
            else if (m.cat == 1 && m.mode == 0) why = "DBD category without a DBD mode";
            else if (m.cat == 1 && m.level < 0) why = "DBD category with a negative daughter level";
            else if (m.cat == 1 && !std::isnan(m.emin) && !std::isnan(m.emax) && m.emin >= m.emax) why = "DBD energy range with min >= max";
            else if (m.cat == 1 && m.mode < 21 && mode_supports_window(m.mode)) {
              // the effective window (after defaults were filled in) as the public observer reports it
              const bxdecay0::bbpars & bp = g.get_bb_params();
              if (!(bp.ebb1 < bp.ebb2)) why = "empty effective energy window [" + std::to_string(bp.ebb1) + ", " + std::to_string(bp.ebb2) + "] MeV";
            }
            if (!why.empty() && !transient) violation(oi, "initialize-accepted-invalid", "initialize() succeeded on a configuration that is invalid by construction: " + why + " [cfg " + m.key() + "]");
          }
          m.init = true; m.ver_known = false; outcome = "ok";
          if (last[gi].rfind("init-failed", 0) == 0) out.ctr["probe_initialize_succeeds_after_failed_initialize"]++;
        } else {
          m.ver_known = false;
          if (!transient && p.ok) {
            violation(oi, "initialize-refused-valid",
                      "initialize() threw (" + err + ") after " + last[gi] + " although a pristine instance with the same configuration and environment initialises"
                          + " [cfg " + m.key() + "]");
          }
          outcome = transient ? "init-failed-fault" : "init-failed-config";
          if (m.mode >= 21 && !transient) outcome = "init-failed-ga";
          if (g.is_initialized()) violation(oi, "initialized-after-failed-initialize", "initialize() threw but is_initialized() is true");
        }
      }
      last[gi] = outcome == "ok" ? "init" : outcome;
    } else if (op.k == "shoot") {
      int s = (int)(((op.arg(2) % NS) + NS) % NS);
      SimRandom r(hmix(hstr("proto-shot"), (u64)op.arg(1)));
      r.begin_op(3000000);
      r.cancel_at = op.arg(3, -1);
      std::string err; bool afired = false;
      bool ok = sut_call(-1, [&] { g.shoot(r, *slot[s]); }, err, afired);
      if (r.cancelled) out.ctr["fault_cancel_in_shot_fired"]++;
      tr.adds("shoot"); tr.add(ok);
      if (!m.init) {
        if (ok) violation(oi, "shoot-before-initialize", "shoot() produced an event on an un-initialised generator");
        outcome = "refused";
        if (r.op_draws() != 0) violation(oi, "shoot-before-initialize", "shoot() on an un-initialised generator consumed deviates");
      } else if (ok) {
        m.count++;
        EventRec rec = EventRec::of(*slot[s]);
        tr.add(rec.hash());
        CanonEv c = canonical_event(m, op.arg(1));
        out.ctr["shots_compared_with_fresh_instance"]++;
        if (!c.budget) {
          if (!c.ok) violation(oi, "event-differs-from-fresh-instance", "shot succeeded but a fresh instance with the same settings fails: " + c.err);
          else if (!(c.ev == rec))
            violation(oi, "event-differs-from-fresh-instance",
                      "event after " + last[gi] + " differs from the one a fresh instance yields for the same settings and deviates: " + first_difference(rec, c.ev));
        }
        if (last[gi] == "reset-reconfigured") out.ctr["probe_shot_after_reset_and_reconfigure"]++;
      } else {
        bool transient = r.cancelled || r.over_budget;
        if (!transient) {
          CanonEv c = canonical_event(m, op.arg(1));
          if (c.ok) violation(oi, "shoot-refused-on-initialized", "shoot() threw (" + err + ") on an initialised generator while a fresh instance yields an event");
        }
        outcome = "shot-failed";
      }
      if (outcome != "refused") last[gi] = ok ? "shot" : "shot-failed";
    } else if (op.k == "set_debug") {
      // not part of the configuration: allowed in every state, changes nothing but the traces (the getter check below
      // verifies that the protocol state and the configuration are untouched)
      try { g.set_debug(op.arg(1) != 0); } catch (std::exception & e) { violation(oi, "set-debug-threw", std::string("set_debug() threw: ") + e.what()); }
      if (g.is_debug() != (op.arg(1) != 0)) violation(oi, "debug-flag-wrong", "is_debug() does not report what set_debug() was given");
      tr.adds("set_debug");
    } else if (op.k == "dump") {
      // observers must be callable in every state and change nothing (the getter check below verifies that)
      std::ostringstream sink;
      try { g.smart_dump(sink, "title", "  "); (void)g.get_bb_params(); (void)g.get_to_all_events(); }
      catch (std::exception & e) { violation(oi, "observer-threw", std::string("smart_dump()/get_bb_params() threw: ") + e.what()); }
      tr.add(sink.str().size() > 0);
    } else if (op.k == "reset") {
      bool was = m.init;
      try { g.reset(); } catch (std::exception & e) { violation(oi, "reset-threw", e.what()); }
      if (was) {
        m = Model(); last[gi] = "reset"; out.ctr["probe_reset_of_initialized"]++;
        // "indistinguishable from a newly constructed one": also for the observers of the working data
        static const std::string pristine = [] { bxdecay0::decay0_generator fresh; return working_data(fresh); }();
        std::string now = working_data(g);
        if (now != pristine) {
          size_t k = 0; while (k < now.size() && k < pristine.size() && now[k] == pristine[k]) k++;
          size_t b = now.rfind('\n', k); b = b == std::string::npos ? 0 : b + 1;
          violation(oi, "not-default-after-reset", "after reset() the working data seen through get_to_all_events()/get_bb_params() differ from a newly constructed generator, first at: '"
                            + now.substr(b, 80) + "'");
        }
      }
      else { out.ctr["diag_reset_on_uninitialised_keeps_config"]++; }
      tr.adds("reset");
    } else {
      continue;
    }
    // after every call: every getter equals the model
    std::string diff = check_getters(*gen[gi], m);
    tr.adds(diff);
    if (!diff.empty()) {
      std::string cls = (op.k == "reset") ? "not-default-after-reset" : (op.k == "init" ? "getters-changed-by-initialize" : "getter-mismatch");
      violation(oi, cls, diff);
    }
    // the bystander must be untouched by whatever was done to the other instance
    int other = 1 - gi;
    std::string d2 = check_getters(*gen[other], model[other]);
    if (!d2.empty()) violation(oi, "bystander-instance-changed", d2);
    cover.insert(state_class(m, last[gi]) + "/" + op.k + "/" + outcome);
  }
  out.trace = tr.h;
  out.cover.assign(cover.begin(), cover.end());
  return out;
}

// ---- plan generator -----------------------------------------------------------------------------
// Scenario-driven with noise: cycles of (configure towards a valid target, possibly break it or
// inject a fault into initialise, repair, initialise, shoot with refused calls in between, reset
// or replace), so that the interesting protocol states are reached often; 25% of the ops are
// unconstrained random calls with valid and invalid arguments.
struct Target { int cat; std::string iso; int level; int mode; i64 lo, hi; int ga_nuc; };

Op mk(const std::string & k, std::vector<i64> a, std::vector<std::string> s = {}) { Op o; o.k = k; o.a = std::move(a); o.s = std::move(s); return o; }

Op noise_op(Rng & r, int g)
{
  static const std::vector<std::string> bad_iso = {"Xx999", "", "co60", "Se82 "};
  static const std::vector<std::string> labels = {"2nubb", "0nubb_mn", "0nubbM1", "2nubb_gA_g0", "2nubb_gA_g4", "not-a-mode", "0nu4b"};
  u64 d = r.below(100);
  if (d < 12) return mk("set_cat", {g, (i64)r.below(3)});
  if (d < 26) {
    u64 e = r.below(10);
    if (e < 4) return mk("set_iso", {g}, {r.pick(bkg_names())});
    if (e < 6 && !dbd_cheap().empty()) return mk("set_iso", {g}, {r.pick(dbd_cheap()).nuc});
    if (e < 8) return mk("set_iso", {g}, {GA_NUC[r.below(4)]});
    return mk("set_iso", {g}, {r.pick(bad_iso)});
  }
  if (d < 34) return mk("set_level", {g, r.chance(0.7) ? r.range(0, 2) : (r.chance(0.8) ? r.range(-8, 17) : r.pick(std::vector<i64>{-2147483647 - 1, 2147483647, -2, 100000}))});
  if (d < 46) {
    u64 e = r.below(10);
    if (e < 5) return mk("set_mode", {g, r.pick(std::vector<i64>{1, 2, 3, 7, 9, 11, 12, 17, 18})});
    if (e < 7) return mk("set_mode", {g, r.range(21, 24)});
    return mk("set_mode", {g, r.range(0, 25)});
  }
  if (d < 50) return mk("set_label", {g}, {r.pick(labels)});
  if (d < 58) {
    u64 e = r.below(7);
    if (e == 0) { i64 lo = r.range(0, 1500); return mk("set_range", {g, lo, lo + r.range(200, 1500)}); }
    if (e == 1) return mk("set_range", {g, 2000, 1000});
    if (e == 2) return mk("set_range", {g, r.range(0, 1000), -1});
    if (e == 3) return mk("set_range", {g, -1, r.pick(std::vector<i64>{1, 300, 1500, 4000, 100000})});           // upper bound only
    if (e == 4) return mk("set_range", {g, r.pick(std::vector<i64>{4000, 4299, 4300, 4301, 4500, 5000, 100000}), -1}); // lower bound only, at or above anything a decay can release
    if (e == 5) { i64 v = r.range(1, 3000); return mk("set_range", {g, v, v}); }                                   // min == max
    return mk("set_range", {g, -1, -1});
  }
  if (d < 61) return mk("set_ver", {g}, {r.chance(0.5) ? "1.0.0" : ""});
  if (d < 65) return mk("add_op", {g, r.chance(0.3) ? 0 : r.range(1, mdl_single_presets())});
  if (d < 66) return mk("dump", {g});
  if (d < 67) return mk("set_debug", {g, (i64)r.below(2)});
  if (d < 78) return mk("init", {g, (i64)r.below(1000), -1, -1, -1});
  if (d < 90) return mk("shoot", {g, (i64)r.below(8), (i64)r.below(NS), -1});
  if (d < 95) return mk("reset", {g});
  if (d < 97) return mk("new", {g});
  if (d < 99) return mk("ga_put", {(i64)r.below(4), (i64)r.below(2), (i64)r.below(3), r.chance(0.3) ? (i64)r.below(9000) : -1});
  return mk("ga_del", {(i64)r.below(4), (i64)r.below(2)});
}

Target pick_target(Rng & r)
{
  Target t; t.cat = 2; t.level = 0; t.mode = 0; t.lo = t.hi = -1; t.ga_nuc = -1;
  u64 d = r.below(100);
  if (d < 40 || dbd_cheap().empty()) { t.iso = r.pick(bkg_names()); }
  else if (d >= 68 && d < 75 && !dbd_quad().empty()) {
    // quadrature-based modes (the ones an energy window applies to): milliseconds per initialise
    const DbdEntry & e = r.pick(dbd_quad());
    t.cat = 1; t.iso = e.nuc; t.level = e.level; t.mode = e.mode;
    if (mode_supports_window(e.mode) && e.e0_keV > 300 && r.chance(0.6)) { t.lo = r.range(0, (i64)e.e0_keV / 2); t.hi = t.lo + (i64)e.e0_keV / 2; }
  }
  else if (d < 75) {
    const DbdEntry & e = r.pick(dbd_cheap());
    t.cat = 1; t.iso = e.nuc; t.level = e.level; t.mode = e.mode;
    if (mode_supports_window(e.mode) && e.e0_keV > 300 && r.chance(0.3)) { t.lo = r.range(0, (i64)e.e0_keV / 2); t.hi = t.lo + (i64)e.e0_keV / 2; }
  } else {
    t.cat = 1; t.ga_nuc = (int)r.below(4); t.iso = GA_NUC[t.ga_nuc]; t.level = 0; t.mode = (int)r.range(21, 22);
  }
  return t;
}

void emit_config(Rng & r, Plan & p, int g, const Target & t)
{
  std::vector<Op> v;
  v.push_back(mk("set_cat", {g, t.cat}));
  v.push_back(mk("set_iso", {g}, {t.iso}));
  if (t.cat == 1) {
    v.push_back(mk("set_level", {g, t.level}));
    if (r.chance(0.2) && t.mode <= 24) {
      static const char * L[] = {"", "0nubb_mn", "0nubb_rhc_lambda_0", "0nubb_rhc_lambda_02", "2nubb", "0nubbM1", "0nubbM3", "0nubb_rhc_lambda_2", "2nubb_2", "0nuKb+",
                                 "2nuKb+", "0nu2K", "2nu2K", "0nubbM7", "0nubbM2", "2nubb_bosonic_0", "2nubb_bosonic_2", "0nubb_rhc_eta_s", "0nubb_rhc_eta_nmes",
                                 "2nub_lv", "0nu4b", "2nubb_gA_g0", "2nubb_gA_g2", "2nubb_gA_g22", "2nubb_gA_g4"};
      v.push_back(mk("set_label", {g}, {L[t.mode]}));
    } else v.push_back(mk("set_mode", {g, t.mode}));
    if (t.lo >= 0) v.push_back(mk("set_range", {g, t.lo, t.hi}));
  }
  if (r.chance(0.25)) v.push_back(mk("add_op", {g, r.range(1, mdl_single_presets())}));
  // random order: the protocol does not care
  for (size_t i = v.size(); i > 1; i--) std::swap(v[i - 1], v[r.below(i)]);
  for (auto & o : v) p.ops.push_back(o);
}

Plan gen_proto(u64 seed, u64 idx, const RunCtx & ctx)
{
  Plan p; p.suite = "proto"; p.seed = seed; p.idx = idx;
  Rng r(hmix(hmix(seed, hstr("proto")), idx));
  bool faults = (idx % 2) == 1;
  p.hdr["faults"] = faults ? "1" : "0";
  int cycles = (int)r.range(1, ctx.tier == "thorough" ? 5 : 3);
  Target prev[2]; bool has_prev[2] = {false, false};
  for (int c = 0; c < cycles; c++) {
    int g = r.chance(0.85) ? 0 : 1;
    auto noise = [&](double prob) { while (r.chance(prob)) p.ops.push_back(noise_op(r, r.chance(0.8) ? g : 1 - g)); };
    noise(0.3);
    Target t = pick_target(r);
    // the next life of an object is often a near-copy of its previous one: same decay with another window (or none),
    // or another level of the same nuclide and mode - what a carried-over piece of the previous life would not notice
    if (has_prev[g] && prev[g].cat == 1 && prev[g].ga_nuc < 0 && r.chance(0.4)) {
      t = prev[g];
      const DbdEntry * e = nullptr;
      for (auto & x : dbd_catalogue()) if (x.nuc == t.iso && x.level == t.level && x.mode == t.mode) { e = &x; break; }
      u64 k = r.below(3);
      if (k == 0 && e && mode_supports_window(t.mode) && e->e0_keV > 300) {
        if (t.lo >= 0 && r.chance(0.4)) t.lo = t.hi = -1;
        else { t.lo = r.range(0, (i64)e->e0_keV / 2); t.hi = t.lo + r.range((i64)e->e0_keV / 4, (i64)e->e0_keV / 2); }
      } else if (k == 1) {
        std::vector<const DbdEntry *> alt;
        for (auto & x : dbd_catalogue()) if (x.nuc == t.iso && x.mode == t.mode && x.level != t.level && x.qng_calls <= 1500) alt.push_back(&x);
        if (!alt.empty()) { t.level = r.pick(alt)->level; t.lo = t.hi = -1; }
      }
    }
    prev[g] = t; has_prev[g] = true;
    if (t.ga_nuc >= 0) {
      // the durable environment: good dataset, torn dataset, or none at all (the shipped default)
      u64 e = r.below(10);
      int proc = t.mode - 21;
      if (e < 5) p.ops.push_back(mk("ga_put", {t.ga_nuc, proc, (i64)r.below(3), -1}));
      else if (e < 8) p.ops.push_back(mk("ga_put", {t.ga_nuc, proc, (i64)r.below(3), (i64)r.below(9000)}));
    }
    emit_config(r, p, g, t);
    noise(0.15);
    // possibly break the configuration, try, then repair
    if (r.chance(0.25)) {
      u64 b = r.below(5);
      if (b == 0) p.ops.push_back(mk("set_iso", {g}, {"Xx999"}));
      else if (b == 1) p.ops.push_back(mk("set_cat", {g, 0}));
      else if (b == 2) p.ops.push_back(mk("set_level", {g, t.cat == 1 ? r.pick(std::vector<i64>{16, -2, -7, 99}) : -1}));
      else if (b == 3) p.ops.push_back(mk("set_mode", {g, t.cat == 1 ? 0 : 4}));
      else if (r.chance(0.5)) p.ops.push_back(mk("set_range", {g, 2000, 1000}));
      else p.ops.push_back(mk("set_range", {g, r.pick(std::vector<i64>{4300, 4500, 5000, 100000}), -1}));
      p.ops.push_back(mk("init", {g, (i64)r.below(1000), -1, -1, -1}));
      if (r.chance(0.3)) p.ops.push_back(mk("shoot", {g, (i64)r.below(8), (i64)r.below(NS), -1}));
      // repair: re-emit the whole target configuration
      Plan tmp; emit_config(r, tmp, g, t);
      for (auto & o : tmp.ops) if (o.k != "add_op") p.ops.push_back(o);
      if (b == 4 && t.lo < 0) p.ops.push_back(mk("set_range", {g, -1, -1}));
    }
    // possibly a faulted initialise first
    if (faults && r.chance(0.45)) {
      Op in = mk("init", {g, (i64)r.below(1000), -1, -1, -1});
      u64 f = r.below(3);
      if (f == 0) in.a[2] = r.range(0, 6);
      else if (f == 1) in.a[3] = r.range(0, 15);
      else in.a[4] = r.range(0, 4);
      p.ops.push_back(in);
      if (r.chance(0.3)) p.ops.push_back(mk("shoot", {g, (i64)r.below(8), (i64)r.below(NS), -1}));
      if (t.ga_nuc >= 0 && r.chance(0.5)) p.ops.push_back(mk("ga_put", {t.ga_nuc, (i64)(t.mode - 21), (i64)r.below(3), -1}));
    }
    p.ops.push_back(mk("init", {g, (i64)r.below(1000), -1, -1, -1}));
    int shots = (int)r.range(0, 5);
    for (int k = 0; k < shots; k++) {
      Op s = mk("shoot", {g, (i64)r.below(8), (i64)r.below(NS), -1});
      if (faults && r.chance(0.12)) s.a[3] = r.range(0, 12);
      p.ops.push_back(s);
      noise(0.25); // refused setters / add_op / double initialise while initialised
    }
    u64 e = r.below(10);
    if (e < 7) p.ops.push_back(mk("reset", {g}));
    else if (e < 8) p.ops.push_back(mk("new", {g}));
    noise(0.2);
  }
  return p;
}

/// Exhaustive companion (thorough tier): run index enumerates EVERY call sequence of length 1..4 over a
/// 15-call alphabet on one generator (54240 sequences; the thorough tier goes to length 5: 813615), each followed by a probe
/// (initialise if possible, shoot) so that the final state is exercised. gA dataset for Se82/g0 present.
const u64 ENUM_ALPHA = 15;
u64 proto_enum_total() { return 15 + 15 * 15 + 15 * 15 * 15 + 15 * 15 * 15 * 15 + 15 * 15 * 15 * 15 * 15; } // lengths 1..5; the first 54240 indices are lengths 1..4
Op enum_op(u64 k)
{
  switch (k) {
  case 0: return mk("set_cat", {0, 1});
  case 1: return mk("set_cat", {0, 2});
  case 2: return mk("set_iso", {0}, {"Co60"});
  case 3: return mk("set_iso", {0}, {"Mo100"});
  case 4: return mk("set_iso", {0}, {"Se82"});
  case 5: return mk("set_level", {0, 0});
  case 6: return mk("set_mode", {0, 1});
  case 7: return mk("set_mode", {0, 21});
  case 8: return mk("set_range", {0, 500, 2500});
  case 9: return mk("add_op", {0, 1});
  case 10: return mk("add_op", {0, 0});
  case 11: return mk("init", {0, 7, -1, -1, -1});
  case 12: return mk("shoot", {0, 3, 0, -1});
  case 13: return mk("reset", {0});
  default: return mk("dump", {0});
  }
}
Plan gen_proto_enum(u64 seed, u64 idx, const RunCtx &)
{
  Plan p; p.suite = "proto-enum"; p.seed = seed; p.idx = idx;
  u64 i = idx % proto_enum_total();
  int len = 1; u64 block = ENUM_ALPHA;
  while (i >= block) { i -= block; block *= ENUM_ALPHA; len++; }
  p.hdr["enumerated"] = "length " + std::to_string(len);
  p.ops.push_back(mk("ga_put", {0, 0, 0, -1}));
  std::vector<u64> digits;
  for (int k = 0; k < len; k++) { digits.push_back(i % ENUM_ALPHA); i /= ENUM_ALPHA; }
  for (int k = len - 1; k >= 0; k--) p.ops.push_back(enum_op(digits[(size_t)k]));
  // probe the state reached
  p.ops.push_back(mk("init", {0, 9, -1, -1, -1}));
  p.ops.push_back(mk("shoot", {0, 5, 1, -1}));
  p.ops.push_back(mk("reset", {0}));
  p.ops.push_back(mk("dump", {0}));
  return p;
}

std::vector<Op> simplify_proto(const Op & op)
{
  std::vector<Op> v;
  if (op.k == "init") for (size_t i : {2u, 3u, 4u}) if (op.arg(i, -1) >= 0) { Op c = op; c.a[i] = -1; v.push_back(c); }
  if (op.k == "shoot" && op.arg(3, -1) >= 0) { Op c = op; c.a[3] = -1; v.push_back(c); }
  if (op.k == "ga_put" && op.arg(3, -1) >= 0) { Op c = op; c.a[3] = -1; v.push_back(c); }
  if (op.k != "ga_put" && op.k != "ga_del" && op.arg(0) != 0) { Op c = op; c.a[0] = 0; v.push_back(c); }
  return v;
}

SuiteRegistrar reg_proto({"proto", "random public-API call sequences against an executable protocol state machine (C09)", gen_proto, run_proto, simplify_proto,
                          nullptr});

// ---- first use under an I/O fault (runs in a freshly forked process: --fresh 1) ---------------------------
//   op res_fault which kind arg   (which: 0 dbd_isotopes.lis 1 background_isotopes.lis 2 dbd_modes.lis; kind 1: cannot be opened, 2: EIO from read #arg)
//   op fu_cfg cat level mode ; nuclide        (a configuration the catalogue knows to be accepted)
// The catalogue lists are loaded lazily, once per process. A failed first load must not poison the process:
// once the fault is gone the same object, and a brand-new one, initialise and yield the same events.
std::string read_text(const std::string & p) { std::ifstream f(p.c_str(), std::ios::binary); std::ostringstream o; o << f.rdbuf(); return o.str(); }

Outcome run_firstuse(const Plan & plan, const RunCtx & ctx)
{
  Outcome out; Trace tr;
  const bool check = ctx.prop == "C09";
  if (!fs::active()) { out.trace = 1; return out; }
  fs::reset();
  static const char * L[3] = {"dbd_isotopes.lis", "background_isotopes.lis", "dbd_modes.lis"};
  std::string res = fs::root() + "/res";
  for (int i = 0; i < 3; i++) fs::put(res + "/description/" + L[i], read_text(repo_dir() + "/resources/description/" + L[i]));
  setenv("BXDECAY0_RESOURCE_DIR", res.c_str(), 1); // before the library resolves it for the first (and only) time
  Model m; i64 which = 2, kind = 0, arg = 0;
  for (const Op & op : plan.ops) {
    if (op.k == "res_fault") { which = op.arg(0) % 3; kind = op.arg(1); arg = op.arg(2); }
    if (op.k == "fu_cfg") { m.cat = (int)op.arg(0); m.level = m.cat == 1 ? (int)op.arg(1) : -1; m.mode = m.cat == 1 ? (int)op.arg(2) : 0; m.iso = op.str(0); }
  }
  if (m.iso.empty()) { out.trace = 2; return out; }
  auto violation = [&](const std::string & cls, const std::string & what) { if (check) out.fail("C09", cls, cls + " first-use " + L[which] + " fault" + std::to_string(kind), what + " [cfg " + m.key() + "]"); };
  bxdecay0::decay0_generator g;
  std::string err; bool af = false;
  // first use, under the fault
  fs::begin_op(); fs::faults() = fs::Faults();
  if (kind == 1) fs::faults().open_errno[res + "/description/" + L[which]] = 5 /*EIO*/;
  else if (kind == 2) fs::faults().eio_at_read = std::max<i64>(0, arg);
  i64 f0 = fs::stats().open_failed + fs::stats().read_eio;
  SimRandom r1(hmix(hstr("fu-init"), 1)); r1.begin_op(3000000);
  bool ok1 = sut_call(-1, [&] { apply_model(g, m); g.initialize(r1); }, err, af);
  bool fired = (fs::stats().open_failed + fs::stats().read_eio) > f0;
  if (fired) out.ctr["fault_io_at_first_use_fired"]++;
  fs::faults() = fs::Faults(); fs::begin_op();
  tr.add(ok1); tr.add(fired);
  if (!ok1 && g.is_initialized()) violation("initialized-after-failed-initialize", "initialize() threw under an I/O fault on " + std::string(L[which]) + " but is_initialized() is true");
  // the fault is gone: the same object must be usable
  bool ok2 = ok1; std::string err2;
  if (!ok1) {
    SimRandom r2(hmix(hstr("fu-init"), 2)); r2.begin_op(3000000);
    ok2 = sut_call(-1, [&] { g.initialize(r2); }, err2, af);
    if (!ok2) violation("initialize-refused-valid", "after a first initialise that failed under an I/O fault on " + std::string(L[which]) + " (" + err + "), the same object still refuses a configuration the catalogue knows to be accepted: " + err2);
    else out.ctr["probe_initialize_succeeds_after_io_fault_at_first_use"]++;
  }
  // ... and so must a brand-new one: nothing process-wide may have been poisoned
  bxdecay0::decay0_generator g2; std::string err3;
  SimRandom r3(hmix(hstr("fu-init"), 3)); r3.begin_op(3000000);
  bool ok3 = sut_call(-1, [&] { apply_model(g2, m); g2.initialize(r3); }, err3, af);
  if (!ok3) violation("initialize-refused-valid", "after an I/O fault on " + std::string(L[which]) + " at the first use in this process, a brand-new generator refuses a configuration the catalogue knows to be accepted: " + err3);
  tr.add(ok2); tr.add(ok3);
  if (ok2 && ok3) {
    for (int i = 0; i < 4 && !out.violated(); i++) {
      SimRandom a(hmix(hstr("fu-shot"), (u64)i)), b(hmix(hstr("fu-shot"), (u64)i));
      a.begin_op(3000000); b.begin_op(3000000);
      bxdecay0::event e1, e2; std::string ea, eb;
      bool s1 = sut_call(-1, [&] { g.shoot(a, e1); }, ea, af), s2 = sut_call(-1, [&] { g2.shoot(b, e2); }, eb, af);
      out.ctr["shots_compared_with_fresh_instance"]++;
      if (s1 != s2 || (s1 && !(EventRec::of(e1) == EventRec::of(e2)))) violation("event-differs-from-fresh-instance", "after the faulted first use, the re-initialised object and a brand-new one yield different events");
      if (s1) tr.add(EventRec::of(e1).hash());
    }
  }
  out.cover.push_back(std::string("firstuse/") + L[which] + "/k" + std::to_string(kind) + "/" + (m.cat == 1 ? "dbd" : "bkg") + "/" + (ok1 ? "first-ok" : "first-failed"));
  out.trace = tr.h;
  return out;
}

Plan gen_firstuse(u64 seed, u64 idx, const RunCtx &)
{
  Plan p; p.suite = "proto-firstuse"; p.seed = seed; p.idx = idx;
  p.hdr["io_points"] = "1"; // marks the plan as one that must run in a pristine process (no warm-up)
  Rng r(hmix(hmix(seed, hstr("proto-firstuse")), idx));
  p.ops.push_back(mk("res_fault", {(i64)r.below(3), r.chance(0.2) ? 0 : r.range(1, 2), r.range(0, 3)}));
  if (r.chance(0.3) || dbd_cheap().empty()) p.ops.push_back(mk("fu_cfg", {2, 0, 0}, {r.pick(bkg_names())}));
  else { const DbdEntry & e = r.pick(dbd_cheap()); p.ops.push_back(mk("fu_cfg", {1, e.level, e.mode}, {e.nuc})); }
  return p;
}

SuiteRegistrar reg_firstuse({"proto-firstuse", "first use of the lazily loaded catalogues under an I/O fault, in a pristine process (C09)", gen_firstuse, run_firstuse, nullptr,
                             nullptr});

SuiteRegistrar reg_proto_enum({"proto-enum", "every public-API call sequence of length <= 4 over a 15-call alphabet, against the same protocol model (C09, thorough)",
                               gen_proto_enum, run_proto, simplify_proto, nullptr});

} // namespace
} // namespace sim
