// SimSched/SimGSL implementation. This translation unit is compiled WITHOUT ThreadSanitizer
// instrumentation in the tsan flavour (Makefile), see sched.h.
#include "sched.h"
#include <cerrno>
#include <climits>
#include <cstdio>
#include <gsl/gsl_errno.h>
#include <gsl/gsl_integration.h>
#include <linux/futex.h>
#include <pthread.h>
#include <sys/syscall.h>
#include <unistd.h>

extern "C" {
gsl_error_handler_t * __real_gsl_set_error_handler(gsl_error_handler_t *);
gsl_error_handler_t * __real_gsl_set_error_handler_off(void);
int __real_gsl_integration_qng(const gsl_function *, double, double, double, double, double *, double *, size_t *);
int __real_pthread_mutex_lock(pthread_mutex_t *);
int __real_pthread_mutex_unlock(pthread_mutex_t *);
int __real_pthread_mutex_trylock(pthread_mutex_t *);
int __real___cxa_guard_acquire(void *);
void __real___cxa_guard_release(void *);
void __real___cxa_guard_abort(void *);
}

namespace sim {
namespace sched {

namespace {

struct Task
{
  int id = 0;
  pthread_t th;
  volatile int go = 0;
  int state = 0; // 0 runnable, 1 blocked on a mutex, 2 finished
  pthread_mutex_t * waiting_on = nullptr;
  void * waiting_guard = nullptr;
  std::function<void()> body;
  i64 kind_count[16] = {0};
  i64 steps = 0;
  std::vector<u64> vc;
  int window_depth = 0;
  i64 qng_index = 0;
};

struct Access { int task; u64 clock; };

struct World
{
  std::vector<Task *> tasks;
  volatile int ctl_go = 0;
  std::vector<Decision> decisions;
  std::set<std::pair<int, i64>> inject;
  i64 max_steps = 0;
  std::map<pthread_mutex_t *, int> owner;
  std::map<pthread_mutex_t *, int> depth;           // lock count of the owner (recursive mutexes)
  std::map<pthread_mutex_t *, std::vector<u64>> mutex_vc;
  std::map<void *, int> guard_owner;              // function-local static being initialised by that task
  std::map<void *, std::vector<u64>> guard_vc;
  Access last_write{-1, 0};
  std::vector<Access> reads_since_write;
  Result res;
  int sig_events = 0;
};

thread_local Task * t_task = nullptr;
thread_local int t_in_wrapper = 0; // >0 while the thread executes scheduler bookkeeping: no nested schedule point
struct WrapScope { WrapScope() { t_in_wrapper++; } ~WrapScope() { t_in_wrapper--; } };
World * g_world = nullptr;
i64 g_total_qng = 0, g_total_qng_fail = 0;

inline void futex_wait(volatile int * w, int val) { syscall(SYS_futex, (int *)w, FUTEX_WAIT, val, nullptr, nullptr, 0); }
inline void futex_wake(volatile int * w) { syscall(SYS_futex, (int *)w, FUTEX_WAKE, INT_MAX, nullptr, nullptr, 0); }

void park(volatile int * w)
{
  while (*w == 0) futex_wait(w, 0);
  *w = 0;
  __asm__ __volatile__("" ::: "memory");
}
void wake(volatile int * w)
{
  __asm__ __volatile__("" ::: "memory");
  *w = 1;
  futex_wake(w);
}

Task * pick_runnable(World & w, int preferred, Task * exclude)
{
  size_t n = w.tasks.size();
  if (preferred >= 0 && (size_t)preferred < n) {
    Task * p = w.tasks[(size_t)preferred];
    if (p != exclude && p->state == 0) return p;
  }
  size_t start = exclude ? (size_t)exclude->id + 1 : 0;
  for (size_t k = 0; k < n; k++) {
    Task * p = w.tasks[(start + k) % n];
    if (p != exclude && p->state == 0) return p;
  }
  return nullptr;
}

void switch_to(World & w, Task * self, Task * next)
{
  w.res.switches++;
  wake(&next->go);
  park(&self->go);
}

void sig_add(World & w, char c, int task)
{
  w.res.handler_events++;
  if (w.sig_events++ < 32) { w.res.overlap_sig += c; w.res.overlap_sig += (char)('0' + task); }
}

/// vector-clock race check on the one process-wide variable the library manipulates through GSL
void handler_access(World & w, Task * t, bool write, const char * what)
{
  auto hb = [&](const Access & a) { return a.task < 0 || a.task == t->id || a.clock <= t->vc[(size_t)a.task]; };
  bool race = !hb(w.last_write);
  std::string with = "write";
  if (write) for (auto & r : w.reads_since_write) if (!hb(r)) { race = true; with = "read"; }
  if (race) {
    w.res.races++;
    if (w.res.first_race.empty()) {
      char b[200];
      std::snprintf(b, sizeof b, "task %d %s (%s) is unordered with an earlier handler %s by task %d", t->id, write ? "writes the GSL error handler" : "has GSL read the error handler",
                    what, with.c_str(), w.last_write.task);
      w.res.first_race = b;
    }
  }
  Access a{t->id, t->vc[(size_t)t->id]};
  if (write) { w.last_write = a; w.reads_since_write.clear(); }
  else w.reads_since_write.push_back(a);
}

void H0(const char * reason, const char * file, int line, int gsl_errno)
{
  World * w = g_world;
  Task * t = t_task;
  if (!w) return;
  w->res.h0_calls++;
  if (w->res.first_h0.empty()) {
    char b[300];
    std::snprintf(b, sizeof b, "GSL invoked the application's base error handler (GSL's default would abort) during a quadrature of task %d: %s (%s:%d, errno %d)",
                  t ? t->id : -1, reason, file, line, gsl_errno);
    w->res.first_h0 = b;
  }
}

void * thread_main(void * arg)
{
  Task * t = (Task *)arg;
  t_task = t;
  park(&t->go);
  World & w = *g_world;
  sched_point(SP_TASK_START, 0);
  try { t->body(); } catch (...) {}
  t->state = 2;
  // release the next runnable task, or report quiescence / deadlock to the controller
  Task * next = pick_runnable(w, -1, t);
  if (next) wake(&next->go);
  else {
    for (Task * o : w.tasks) if (o->state == 1) w.res.deadlock = true;
    wake(&w.ctl_go);
  }
  t_task = nullptr;
  return nullptr;
}

} // namespace

int current_task() { return t_task ? t_task->id : -1; }
static bool g_io_points = false;
void set_io_points(bool on) { g_io_points = on; }
bool io_points() { return g_io_points; }
bool alloc_point_ok() { return g_io_points && t_task != nullptr && t_in_wrapper == 0; }
NoPoints::NoPoints() { t_in_wrapper++; }
NoPoints::~NoPoints() { t_in_wrapper--; }
i64 total_qng_calls() { return g_total_qng; }
i64 total_qng_fails() { return g_total_qng_fail; }

Result run(const std::vector<std::function<void()>> & bodies, std::vector<Decision> decisions, int first, const std::set<std::pair<int, i64>> & inject,
           i64 max_steps)
{
  World w;
  w.decisions = std::move(decisions);
  w.inject = inject;
  w.max_steps = max_steps;
  size_t n = bodies.size();
  for (size_t i = 0; i < n; i++) {
    Task * t = new Task;
    t->id = (int)i; t->body = bodies[i];
    t->vc.assign(n, 0); t->vc[i] = 1;
    w.tasks.push_back(t);
  }
  gsl_error_handler_t * before = __real_gsl_set_error_handler(&H0);
  g_world = &w;
  for (Task * t : w.tasks) pthread_create(&t->th, nullptr, thread_main, t);
  Task * f = w.tasks[(size_t)first % n];
  wake(&f->go);
  park(&w.ctl_go);
  if (!w.res.deadlock) {
    for (Task * t : w.tasks) pthread_join(t->th, nullptr);
  } // else: the blocked threads stay parked forever; the caller must retire this process
  gsl_error_handler_t * after = __real_gsl_set_error_handler(before);
  g_world = nullptr;
  Result res = w.res;
  res.handler_leaked = after != &H0;
  for (Task * t : w.tasks) { res.steps += t->steps; if (!w.res.deadlock) delete t; }
  for (auto & d : w.decisions) if (d.fired) res.decisions_fired++;
  return res;
}

} // namespace sched

// ---- schedule point (called from SimRandom draws, GSL and mutex wraps) --------------------------------
void sched_point(int kind, i64)
{
  using namespace sched;
  Task * t = t_task;
  World * wp = g_world;
  if (!t || !wp) return;
  WrapScope ws_;
  World & w = *wp;
  t->steps++;
  if (kind >= 0 && kind < 16) t->kind_count[kind]++;
  if (t->steps > w.max_steps) { w.res.step_overflow = true; return; }
  for (auto & d : w.decisions) {
    if (d.fired || d.from != t->id) continue;
    bool hit = d.kind == 0 ? (t->steps == d.nth) : (d.kind == kind && t->kind_count[kind] == d.nth);
    if (!hit) continue;
    d.fired = true;
    Task * next = pick_runnable(w, d.to, t);
    if (next) switch_to(w, t, next);
    break;
  }
}

} // namespace sim

// ---- link-time seams -------------------------------------------------------------------------------------
using namespace sim;
using namespace sim::sched;

extern "C" {

gsl_error_handler_t * __wrap_gsl_set_error_handler_off(void)
{
  Task * t = t_task; World * w = g_world;
  if (!t || !w) return __real_gsl_set_error_handler_off();
  WrapScope ws_;
  sched_point(SP_GSL_OFF_PRE, 0);
  gsl_error_handler_t * old = __real_gsl_set_error_handler_off();
  shadow_handler_rw();
  handler_access(*w, t, true, "gsl_set_error_handler_off");
  t->window_depth++;
  sig_add(*w, 'o', t->id);
  sched_point(SP_GSL_OFF_POST, 0);
  return old;
}

gsl_error_handler_t * __wrap_gsl_set_error_handler(gsl_error_handler_t * h)
{
  Task * t = t_task; World * w = g_world;
  if (!t || !w) return __real_gsl_set_error_handler(h);
  WrapScope ws_;
  sched_point(SP_GSL_SET_PRE, 0);
  gsl_error_handler_t * old = __real_gsl_set_error_handler(h);
  shadow_handler_rw();
  handler_access(*w, t, true, "gsl_set_error_handler");
  if (t->window_depth > 0) t->window_depth--;
  sig_add(*w, 'r', t->id);
  sched_point(SP_GSL_SET_POST, 0);
  return old;
}

int __wrap_gsl_integration_qng(const gsl_function * f, double a, double b, double ea, double er, double * r, double * ae, size_t * ne)
{
  Task * t = t_task; World * w = g_world;
  if (!t || !w) {
    int st = __real_gsl_integration_qng(f, a, b, ea, er, r, ae, ne);
    g_total_qng++; if (st != 0) g_total_qng_fail++;
    return st;
  }
  WrapScope ws_;
  sched_point(SP_QNG_PRE, 0);
  int st = __real_gsl_integration_qng(f, a, b, ea, er, r, ae, ne);
  g_total_qng++;
  w->res.qng_calls++;
  i64 idx = t->qng_index++;
  if (st != 0) {
    // GSL itself called gsl_error(): it read the process-wide handler
    g_total_qng_fail++;
    w->res.real_misses++;
    shadow_handler_r();
    handler_access(*w, t, false, "real tolerance miss");
    sig_add(*w, 'f', t->id);
  } else if (w->inject.count({t->id, idx})) {
    // buggify: a usually-successful call reports a retryable error the caller already handles
    w->res.injected_misses++;
    gsl_error("injected: failed to reach tolerance", __FILE__, __LINE__, GSL_ETOL);
    shadow_handler_r();
    handler_access(*w, t, false, "injected tolerance miss");
    sig_add(*w, 'i', t->id);
    st = GSL_ETOL;
  }
  sched_point(SP_QNG_POST, 0);
  return st;
}

int __wrap_pthread_mutex_lock(pthread_mutex_t * m)
{
  Task * t = t_task; World * w = g_world;
  if (!t || !w) return __real_pthread_mutex_lock(m);
  WrapScope ws_;
  sched_point(SP_MUTEX, 0);
  int spins = 0;
  while (true) {
    auto it = w->owner.find(m);
    int own = it == w->owner.end() ? -1 : it->second;
    if (own == -1 || own == t->id) {
      int rc = __real_pthread_mutex_trylock(m);
      if (rc == 0) {
        w->owner[m] = t->id;
        w->depth[m]++; // recursive mutexes: released when the count is back to 0
        w->res.mutex_acquires++;
        auto & mv = w->mutex_vc[m];
        if (mv.size() == t->vc.size()) for (size_t i = 0; i < mv.size(); i++) if (mv[i] > t->vc[i]) t->vc[i] = mv[i];
        return 0;
      }
      if (rc != EBUSY) return rc;
      // held outside the model: let somebody else run and retry
      if (++spins > 100000) { w->res.stalled = true; return __real_pthread_mutex_lock(m); }
      Task * next = pick_runnable(*w, -1, t);
      if (next) switch_to(*w, t, next);
      continue;
    }
    // owned by another simulated task: block
    t->state = 1; t->waiting_on = m; t->waiting_guard = nullptr;
    w->res.mutex_blocks++;
    Task * next = pick_runnable(*w, -1, t);
    if (!next) {
      // every task is blocked: deadlock. Report to the controller and stay parked forever.
      w->res.deadlock = true;
      wake(&w->ctl_go);
      park(&t->go); // never returns
    }
    switch_to(*w, t, next);
    // resumed by the unlocker (state was set back to runnable)
  }
}

int __wrap_pthread_mutex_trylock(pthread_mutex_t * m)
{
  Task * t = t_task; World * w = g_world;
  if (!t || !w) return __real_pthread_mutex_trylock(m);
  WrapScope ws_;
  int rc = __real_pthread_mutex_trylock(m);
  if (rc == 0) {
    w->owner[m] = t->id;
    w->depth[m]++;
    auto & mv = w->mutex_vc[m];
    if (mv.size() == t->vc.size()) for (size_t i = 0; i < mv.size(); i++) if (mv[i] > t->vc[i]) t->vc[i] = mv[i];
  }
  return rc;
}

int __wrap_pthread_mutex_unlock(pthread_mutex_t * m)
{
  Task * t = t_task; World * w = g_world;
  if (!t || !w) return __real_pthread_mutex_unlock(m);
  WrapScope ws_;
  auto it = w->owner.find(m);
  if (it == w->owner.end() || it->second != t->id) return __real_pthread_mutex_unlock(m); // not tracked (locked before the run)
  if (w->depth[m] > 1) { w->depth[m]--; return __real_pthread_mutex_unlock(m); } // still held by this task (recursive mutex)
  w->depth[m] = 0;
  w->mutex_vc[m] = t->vc;
  t->vc[(size_t)t->id]++;
  w->owner[m] = -1;
  int rc = __real_pthread_mutex_unlock(m);
  for (Task * o : w->tasks) if (o->state == 1 && o->waiting_on == m) { o->state = 0; o->waiting_on = nullptr; }
  sched_point(SP_MUTEX, 1);
  return rc;
}

// ---- function-local statics: __cxa_guard_acquire blocks a second thread until the first has finished the
// initialiser. A task preempted INSIDE an initialiser (e.g. at a read of a lazily loaded list) would otherwise
// leave the next task blocked in libsupc++ where the scheduler cannot see it.
int __wrap___cxa_guard_acquire(void * g)
{
  Task * t = t_task; World * w = g_world;
  if (!t || !w) return __real___cxa_guard_acquire(g);
  WrapScope ws_;
  while (true) {
    auto it = w->guard_owner.find(g);
    if (it != w->guard_owner.end() && it->second != t->id) {
      t->state = 1; t->waiting_guard = g; t->waiting_on = nullptr;
      w->res.mutex_blocks++;
      Task * next = pick_runnable(*w, -1, t);
      if (!next) { w->res.deadlock = true; wake(&w->ctl_go); park(&t->go); }
      switch_to(*w, t, next);
      continue;
    }
    int r = __real___cxa_guard_acquire(g);
    if (r) w->guard_owner[g] = t->id; // this task runs the initialiser
    else {
      auto & gv = w->guard_vc[g];
      if (gv.size() == t->vc.size()) for (size_t i = 0; i < gv.size(); i++) if (gv[i] > t->vc[i]) t->vc[i] = gv[i];
    }
    return r;
  }
}
static void guard_done(void * g)
{
  Task * t = t_task; World * w = g_world;
  if (!t || !w) return;
  WrapScope ws_;
  w->guard_vc[g] = t->vc;
  t->vc[(size_t)t->id]++;
  w->guard_owner.erase(g);
  for (Task * o : w->tasks) if (o->state == 1 && o->waiting_guard == g) { o->state = 0; o->waiting_guard = nullptr; }
}
void __wrap___cxa_guard_release(void * g) { __real___cxa_guard_release(g); guard_done(g); }
void __wrap___cxa_guard_abort(void * g) { __real___cxa_guard_abort(g); guard_done(g); }

} // extern "C"
