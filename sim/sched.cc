// placeholder: replaced by the real scheduler (SimSched/SimGSL) below in this file's history
#include "simrandom.h"
#include <gsl/gsl_errno.h>
#include <gsl/gsl_integration.h>
#include <pthread.h>
extern "C" {
gsl_error_handler_t * __real_gsl_set_error_handler(gsl_error_handler_t *);
gsl_error_handler_t * __real_gsl_set_error_handler_off(void);
int __real_gsl_integration_qng(const gsl_function *, double, double, double, double, double *, double *, size_t *);
int __real_pthread_mutex_lock(pthread_mutex_t *);
int __real_pthread_mutex_unlock(pthread_mutex_t *);
int __real_pthread_mutex_trylock(pthread_mutex_t *);
gsl_error_handler_t * __wrap_gsl_set_error_handler(gsl_error_handler_t * h) { return __real_gsl_set_error_handler(h); }
gsl_error_handler_t * __wrap_gsl_set_error_handler_off(void) { return __real_gsl_set_error_handler_off(); }
int __wrap_gsl_integration_qng(const gsl_function * f, double a, double b, double ea, double er, double * r, double * ae, size_t * ne)
{ return __real_gsl_integration_qng(f, a, b, ea, er, r, ae, ne); }
int __wrap_pthread_mutex_lock(pthread_mutex_t * m) { return __real_pthread_mutex_lock(m); }
int __wrap_pthread_mutex_unlock(pthread_mutex_t * m) { return __real_pthread_mutex_unlock(m); }
int __wrap_pthread_mutex_trylock(pthread_mutex_t * m) { return __real_pthread_mutex_trylock(m); }
}
namespace sim {
void sched_point(int, i64) {}

}
