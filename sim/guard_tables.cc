// Guarded tables (ASan flavour only): link-time seam around decay0_divdif(F, A, N, x, M).
// The interpolation tables the library passes are a const global (BJ69::plog69, first object of its
// translation unit: no redzone on its left) and an array member of a parameter block (bj69sl2::sl2:
// neighbours are other members of the same object). ASan sees neither an index -1 nor an index N on
// them. The wrapper re-homes both tables for the duration of the call into heap blocks of exactly
// N doubles, so that any read outside [0, N) lands in a poisoned redzone and is reported as
// heap-buffer-overflow. The contract used is the function's own: N_ entries per table.
// malloc/free directly: no allocation fault and no schedule point may come from the seam itself.
namespace sim { long g_guarded_table_calls = 0; }
#if defined(SIM_FLAVOUR_asan)
#include <cstdlib>
#include <cstring>
namespace bxdecay0 { double decay0_divdif(const double * F_, const double * A_, int NN_, double X_, int MM_); }
extern "C" double __real__ZN8bxdecay013decay0_divdifEPKdS1_idi(const double *, const double *, int, double, int);
extern "C" double __wrap__ZN8bxdecay013decay0_divdifEPKdS1_idi(const double * F_, const double * A_, int NN_, double X_, int MM_)
{
  if (NN_ <= 0 || !F_ || !A_) return __real__ZN8bxdecay013decay0_divdifEPKdS1_idi(F_, A_, NN_, X_, MM_);
  const std::size_t bytes = (std::size_t)NN_ * sizeof(double);
  double * f = (double *)std::malloc(bytes);
  double * a = (double *)std::malloc(bytes);
  if (!f || !a) { std::free(f); std::free(a); return __real__ZN8bxdecay013decay0_divdifEPKdS1_idi(F_, A_, NN_, X_, MM_); }
  std::memcpy(f, F_, bytes);
  std::memcpy(a, A_, bytes);
  __atomic_add_fetch(&sim::g_guarded_table_calls, 1, __ATOMIC_RELAXED);
  const double r = __real__ZN8bxdecay013decay0_divdifEPKdS1_idi(f, a, NN_, X_, MM_);
  std::free(f);
  std::free(a);
  return r;
}
#endif
