// SimRandom: the simulator *is* the deviate source (bxdecay0::i_random is the seam).
// Deviate n of stream `key` is a pure function of (key, n): removing or reordering other
// operations of a plan never changes the deviates an operation sees.
#pragma once
#include "core.h"
#include <bxdecay0/i_random.h>
#include <exception>

namespace sim {

struct SimCancel : std::exception
{
  const char * what() const noexcept override { return "SimCancel: deviate source cancelled (injected)"; }
};
struct SimBudget : std::exception
{
  const char * what() const noexcept override { return "SimBudget: step budget exhausted"; }
};

// scheduler hook (thread mode): called at marked draws; defined in sched.cc
void sched_point(int kind, i64 info);
enum { SP_DRAW = 1, SP_GSL_OFF_PRE, SP_GSL_OFF_POST, SP_QNG_PRE, SP_QNG_POST, SP_GSL_SET_PRE, SP_GSL_SET_POST,
       SP_MUTEX, SP_TASK_START, SP_TASK_END, SP_OP, SP_IO, SP_ALLOC };

struct SimRandom : bxdecay0::i_random
{
  u64 key;
  u64 n = 0;
  u64 budget = 2000000;     // draws allowed for the current operation (bounded-liveness watchdog)
  u64 op_start = 0;         // value of n when the current operation began
  i64 cancel_at = -1;       // throw SimCancel at this draw index (relative to op_start)
  struct Steer { i64 at; int kind; };
  std::vector<Steer> steers; // replace draw `at` (relative to op_start) by an extreme-tail value
  i64 squeeze_n = 0;         // the first squeeze_n draws of the operation are mapped affinely into [squeeze_lo, squeeze_hi]
  double squeeze_lo = 0.0, squeeze_hi = 1.0; // (a legal deviate sequence, just not an i.i.d.-looking one: long runs on one side of a branching threshold)
  int yield_every = 0;       // thread mode: every k-th draw is a schedule point
  // observations
  u64 steered_fired = 0;
  bool cancelled = false;
  bool over_budget = false;

  explicit SimRandom(u64 k) : key(k) {}

  void begin_op(u64 budget_ = 2000000)
  {
    op_start = n; budget = budget_; cancel_at = -1; steers.clear(); squeeze_n = 0; squeeze_lo = 0.0; squeeze_hi = 1.0;
    cancelled = false; over_budget = false; steered_fired = 0;
  }
  u64 op_draws() const { return n - op_start; }

  static double unit_from(u64 r) { return ((double)(r >> 12) + 0.5) * (1.0 / 4503599627370496.0); } // in (0,1)

  double operator()() override
  {
    u64 i = n++;
    i64 rel = (i64)(i - op_start);
    if (yield_every > 0 && (i % (u64)yield_every) == 0) sched_point(SP_DRAW, (i64)i);
    if (rel == cancel_at) { cancelled = true; throw SimCancel(); }
    if ((u64)rel >= budget) { over_budget = true; throw SimBudget(); }
    for (const Steer & s : steers) {
      if (s.at == rel) { steered_fired++; return s.kind == 0 ? 1e-12 : 1.0 - 1e-12; }
    }
    double u = unit_from(hmix(key, i));
    if (rel < squeeze_n) u = squeeze_lo + (squeeze_hi - squeeze_lo) * u;
    return u;
  }
};

// allocation seam (alloc.cc): armed only around a SUT call
struct AllocCtl
{
  bool armed = false;
  i64 fail_at = -1; // fail the k-th allocation after arming
  i64 count = 0;
  i64 bytes = 0;
  i64 fired = 0;
  i64 max_single = 0;
};
AllocCtl & alloc_ctl();
struct AllocScope
{
  explicit AllocScope(i64 fail_at)
  {
    AllocCtl & c = alloc_ctl();
    c.count = 0; c.bytes = 0; c.fired = 0; c.max_single = 0; c.fail_at = fail_at; c.armed = true;
  }
  ~AllocScope() { alloc_ctl().armed = false; }
};

/// Run one SUT call with the allocation seam armed; the seam is disarmed *before* the harness
/// touches the exception (so the harness' own allocations are never failed or counted).
template <class F> bool sut_call(i64 alloc_fail_at, F && f, std::string & err, bool & alloc_fired)
{
  AllocCtl & c = alloc_ctl();
  c.count = 0; c.bytes = 0; c.fired = 0; c.max_single = 0; c.fail_at = alloc_fail_at; c.armed = true;
  bool ok = false;
  try { f(); c.armed = false; ok = true; }
  catch (std::exception & e) { c.armed = false; err = e.what(); }
  catch (...) { c.armed = false; err = "non-std exception"; }
  alloc_fired = c.fired > 0;
  return ok;
}

} // namespace sim
