// SimFS + SimClock: the kernel side of open/read/write/close and time(), simulated.
// Link-time seam: -static-libstdc++ -Wl,--wrap=fopen64,fopen,fclose,read,write,writev,time,open,open64,close
// so that std::ifstream / std::ofstream inside bxdecay0 (and the driver) go through here.
// Only paths under the virtual root "/simfs/" are simulated; everything else passes through.
#pragma once
#include "core.h"
#include <functional>

namespace sim {
namespace fs {

struct Faults
{
  // reads
  i64 short_read_max = 0;      // >0: every read returns at most this many bytes
  i64 eintr_every = 0;         // >0: every k-th read call first fails once with EINTR
  i64 eio_at_read = -1;        // read call index (per op) from which reads fail with EIO
  std::map<int, i64> task_eio_at_read; // thread mode: simulated task -> index of ITS read call from which reads fail with EIO
  // opens
  std::map<std::string, int> open_errno; // path -> errno to fail fopen with
  // writes
  i64 short_write_max = 0;     // >0: every write accepts at most this many bytes
  i64 eio_at_write = -1;       // write call index (per op) that fails with EIO
  bool eio_write_persistent = true; // later writes fail too
  i64 enospc_after = -1;       // byte budget over all simulated files; afterwards ENOSPC
  i64 write_errno = 0;         // errno used for eio_at_write (default EIO)
  // kill points inside a write: number of interior cut offsets evaluated per write call
  int interior_cuts = 0;
  u64 cut_key = 0;
};

struct Stats
{
  i64 opens = 0, open_failed = 0, reads = 0, short_reads = 0, eintr = 0, read_eio = 0;
  i64 writes = 0, short_writes = 0, write_errors = 0, enospc = 0, bytes_written = 0, bytes_read = 0;
  i64 crash_points = 0;
};

const std::string & root();  // "/simfs"

void reset();                                   // drop all files, faults, counters
void put(const std::string & path, const std::string & data);
bool exists(const std::string & path);
std::string get(const std::string & path);      // bytes that reached the "kernel" so far
void remove(const std::string & path);
std::vector<std::string> list();
Faults & faults();
void begin_op();                                // reset per-op call counters
Stats & stats();
// called after every successful simulated write (and at interior cut points) with the set of
// files as a process kill at this instant would leave them
void set_crash_observer(std::function<void()> f);
bool active();                                  // false in flavours without the link-time seam
void cleanup_process();                         // remove this process' real scratch directory (flavours without the seam)

void set_time(i64 epoch);                       // SimClock
i64 time_calls();

} // namespace fs
} // namespace sim
