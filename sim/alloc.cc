// SimAlloc: replaceable global operator new. Counts bytes per armed scope and can fail the
// k-th allocation with std::bad_alloc. Backed by malloc so sanitizers keep full heap checking.
#include "simrandom.h"
#include "sched.h"
#include <cstdlib>
#include <new>

namespace sim {
static thread_local AllocCtl t_alloc;
AllocCtl & alloc_ctl() { return t_alloc; }
} // namespace sim

static inline void * sim_alloc(std::size_t n, bool nothrow)
{
  // thread mode, pristine-process runs only: every allocation made by a simulated task is a schedule point.
  // This is what lets the scheduler preempt a task in the middle of straight-line code that neither draws a
  // deviate nor does I/O (a tokeniser loop, a table copy) - e.g. between two calls of a libc function that
  // keeps hidden static state.
  if (sim::sched::alloc_point_ok()) sim::sched_point(sim::SP_ALLOC, (sim::i64)n);
  sim::AllocCtl & c = sim::t_alloc;
  if (c.armed) {
    c.bytes += (sim::i64)n;
    if ((sim::i64)n > c.max_single) c.max_single = (sim::i64)n;
    if (c.count++ == c.fail_at) {
      c.fired++;
      if (nothrow) return nullptr;
      throw std::bad_alloc();
    }
    // unbounded-allocation guard for C15: a single request above 1 GiB is refused like a real
    // allocator under memory pressure would; the suite reports it from max_single.
    if (n > (std::size_t)1 << 30) {
      if (nothrow) return nullptr;
      throw std::bad_alloc();
    }
  }
  void * p = std::malloc(n ? n : 1);
  if (!p) {
    if (nothrow) return nullptr;
    throw std::bad_alloc();
  }
  return p;
}

void * operator new(std::size_t n) { return sim_alloc(n, false); }
void * operator new[](std::size_t n) { return sim_alloc(n, false); }
void * operator new(std::size_t n, const std::nothrow_t &) noexcept { return sim_alloc(n, true); }
void * operator new[](std::size_t n, const std::nothrow_t &) noexcept { return sim_alloc(n, true); }
void operator delete(void * p) noexcept { std::free(p); }
void operator delete[](void * p) noexcept { std::free(p); }
void operator delete(void * p, std::size_t) noexcept { std::free(p); }
void operator delete[](void * p, std::size_t) noexcept { std::free(p); }
void operator delete(void * p, const std::nothrow_t &) noexcept { std::free(p); }
void operator delete[](void * p, const std::nothrow_t &) noexcept { std::free(p); }
