// bxdecay0-run suite (property C13): the program's real main(), command-line parser and driver run
// in-process; argv comes from the plan, output goes to the simulated disk, time() is simulated.
//
//   op cl     cat level mode emin_keV emax_keV seed n act_mBq mdl basestyle logging order ; nuclide
//             (cat: 0 none 1 dbd 2 background; -1 = option absent for level/mode/emin/emax/seed/n/act)
//   op junk   pos kind ; token      (malformed command line: insert a token / drop a value / unknown option)
//   op wfault kind arg              (1 short writes <=arg bytes, 2 ENOSPC after arg bytes, 3 EIO at write #arg, 4 EIO once (not persistent),
//                                    5 the .d0t file cannot be opened, 6 the .d0c file cannot be opened)
//   op cuts   n                     (kill points strictly inside each write: n interior offsets)
//   op epoch  t                     (simulated clock)
//   op rerun  epoch shortw          (execute the same argv again under another epoch / write chunking)
//   op prior  seed n ; nuclide      (an earlier complete run on the SAME basename: its .d0t/.d0c are what this run finds)
//
// Oracles: equal to the library API (reference written against the public API only); byte-identical
// reruns; companion file reports the effective settings; at EVERY kill point (after each write(2)
// and at interior offsets) and under write faults: "@status=0" in the .d0c snapshot implies the
// .d0t snapshot is the complete expected text; a refused line leaves no event record; never a crash.
#include "configs.h"
#include <bxdecay0/bb_utils.h>
#include "simfs.h"
#include "simrandom.h"
#include <bxdecay0/event_reader.h>
#include <bxdecay0/mdl_event_op.h>
#include <bxdecay0/std_random.h>
#include <random>
#include <csignal>

int bxdecay0_run_main(int argc_, char ** argv_); // programs/bxdecay0-run.cxx compiled with -Dmain=bxdecay0_run_main

namespace sim {
namespace {

struct Settings
{
  int cat = 0; std::string nuc; i64 level = -1, mode = -1, emin = -1, emax = -1, seed = -1, n = -1, act_mBq = -1;
  int mdl = 0; int basestyle = 0;
  i64 order = 0;   // 0: options in the canonical order; else the key of a permutation of the option groups
  int logging = 0; // 0 absent, 1 mute, 2 verbose, 3 debug, 4 an unsupported level (refused), 5 --help (usage only: nothing is generated)
};

Settings settings_of(const Op & op)
{
  Settings s;
  s.cat = (int)op.arg(0); s.level = op.arg(1, -1); s.mode = op.arg(2, -1); s.emin = op.arg(3, -1); s.emax = op.arg(4, -1);
  s.seed = op.arg(5, -1); s.n = op.arg(6, -1); s.act_mBq = op.arg(7, -1); s.mdl = (int)op.arg(8); s.basestyle = (int)op.arg(9);
  s.nuc = op.str(0);
  s.logging = (int)op.arg(10, 0);
  s.order = op.arg(11, 0);
  return s;
}

std::string dstr(double v) { std::ostringstream o; o.precision(15); o << v; return o.str(); }
/// the value the program obtains from the token written for x/1000 (std::stod of the printed text)
double tokval(i64 milli) { return std::stod(dstr(milli * 1e-3)); }

struct MdlOpt { bool use; std::string label; bool has_label; int rank; bool has_rank; double phi, theta, aperture; };
MdlOpt mdl_of(int preset)
{
  switch (preset) {
  case 1: return {true, "e-", true, 0, true, 0.0, 90.0, 5.0};
  case 2: return {true, "gamma", true, -1, false, 45.0, 30.0, 20.0};
  case 3: return {true, "", false, 0, true, 0.0, 0.0, 10.0};      // rank without a particle label: refused by the op
  case 4: return {true, "all", true, 1, true, 10.0, 120.0, 15.0};
  default: return {false, "", false, -1, false, 0, 0, 0};
  }
}

std::vector<std::string> tokens_of(const Settings & s, const std::string & base)
{
  std::vector<std::string> t;
  if (s.seed >= 0) { t.push_back("-s"); t.push_back(std::to_string(s.seed)); }
  if (s.n >= 0) { t.push_back(s.basestyle == 1 ? "--nb-events" : "-n"); t.push_back(std::to_string(s.n)); }
  if (s.cat == 1) { t.push_back("-c"); t.push_back("dbd"); }
  else if (s.cat == 2) { t.push_back("--decay-category"); t.push_back("background"); }
  if (!s.nuc.empty()) { t.push_back("-N"); t.push_back(s.nuc); }
  if (s.level >= 0) { t.push_back("-l"); t.push_back(std::to_string(s.level)); }
  if (s.mode >= 0) { t.push_back("-m"); t.push_back(std::to_string(s.mode)); }
  if (s.emin >= 0) { t.push_back("-e"); t.push_back(dstr(s.emin * 1e-3)); }
  if (s.emax >= 0) { t.push_back("-E"); t.push_back(dstr(s.emax * 1e-3)); }
  if (s.act_mBq >= 0) { t.push_back("-a"); t.push_back(dstr(s.act_mBq * 1e-3)); }
  MdlOpt m = mdl_of(s.mdl);
  if (m.use) {
    if (m.has_label) { t.push_back("--pgop-mdl-particle"); t.push_back(m.label); }
    if (m.has_rank) { t.push_back("--pgop-mdl-rank"); t.push_back(std::to_string(m.rank)); }
    t.push_back("--pgop-mdl-cone-phi"); t.push_back(dstr(m.phi));
    t.push_back("--pgop-mdl-cone-theta"); t.push_back(dstr(m.theta));
    t.push_back("--pgop-mdl-cone-aperture"); t.push_back(dstr(m.aperture));
  }
  if (s.logging >= 1 && s.logging <= 4) { static const char * L[] = {"", "mute", "verbose", "debug", "loud"}; t.push_back(s.logging == 2 ? "--logging" : "-g"); t.push_back(L[s.logging]); }
  if (s.logging == 5) t.push_back("--help");
  if (s.order != 0) {
    // the order of the options on the line is the user's: permute the (option, value) groups
    std::vector<std::vector<std::string>> groups;
    for (size_t i = 0; i < t.size();) {
      if (t[i] == "--help") { groups.push_back({t[i]}); i++; }
      else { groups.push_back({t[i], i + 1 < t.size() ? t[i + 1] : std::string()}); i += 2; }
    }
    for (size_t i = groups.size(); i > 1; i--) std::swap(groups[i - 1], groups[(size_t)(hmix((u64)s.order, (u64)i) % i)]);
    t.clear();
    for (auto & g : groups) for (auto & x : g) t.push_back(x);
  }
  if (s.basestyle == 2) { t.push_back("-b"); t.push_back(base); }
  else if (s.basestyle == 3) { t.insert(t.begin(), base); }   // positional first
  else if (s.basestyle != 4) { t.push_back(base); }           // 4: no basename at all -> refused
  return t;
}

struct Reference { bool refused = false; std::string why; std::string d0t; double toall = 1.0; bool has_range = false; double lo = 0, hi = 0; };

/// what the public API yields for the same seed and settings (no code shared with the driver)
Reference reference_run(const Settings & s)
{
  Reference ref;
  try {
    unsigned int seed = s.seed >= 0 ? (unsigned int)s.seed : 314159u;
    size_t n = s.n >= 0 ? (size_t)s.n : 1;
    if (s.n == 0) throw std::logic_error("nb-events < 1");
    if (s.cat == 0) throw std::logic_error("no category");
    if (s.basestyle == 4) throw std::logic_error("no basename");
    if (s.act_mBq == 0) throw std::logic_error("activity must be > 0");
    if (s.logging == 4) throw std::logic_error("unsupported logging level");
    if (s.logging == 5) throw std::logic_error("--help: usage is printed, nothing is generated");
    // "an unsupported nuclide is refused": supported = in the list published for the category (the library API itself
    // resolves names by prefix and would generate something for 'Bi214' as a background)
    if (s.cat == 2 && !bxdecay0::background_isotopes().count(s.nuc)) throw std::logic_error("nuclide not in the published background list");
    if (s.cat == 1 && !bxdecay0::dbd_isotopes().count(s.nuc)) throw std::logic_error("nuclide not in the published DBD list");
    std::default_random_engine engine(seed);
    bxdecay0::std_random prng(engine);
    bxdecay0::decay0_generator g;
    g.set_decay_category(s.cat == 1 ? bxdecay0::decay0_generator::DECAY_CATEGORY_DBD : bxdecay0::decay0_generator::DECAY_CATEGORY_BACKGROUND);
    g.set_decay_isotope(s.nuc);
    if (s.cat == 1) {
      if (s.mode < 0) throw std::logic_error("no dbd mode");
      g.set_decay_dbd_level(s.level >= 0 ? (int)s.level : 0);
      g.set_decay_dbd_mode(static_cast<bxdecay0::dbd_mode_type>(s.mode));
      if (s.emin >= 0 || s.emax >= 0) {
        if (!mode_supports_window((int)s.mode)) throw std::logic_error("window on a mode without energy range support");
        ref.has_range = true; ref.lo = s.emin >= 0 ? tokval(s.emin) : 0.0; ref.hi = s.emax >= 0 ? tokval(s.emax) : 5000.0;
        g.set_decay_dbd_esum_range(ref.lo, ref.hi);
      }
    }
    MdlOpt m = mdl_of(s.mdl);
    if (m.use) {
      auto op = std::make_shared<bxdecay0::momentum_direction_lock_event_op>(false);
      bxdecay0::momentum_direction_lock_event_op::config_type c;
      c.particle_label = m.label; c.target_particle_rank = m.rank; c.cone_phi_degree = m.phi; c.cone_theta_degree = m.theta; c.cone_aperture_degree = m.aperture;
      op->set(c);
      g.add_operation(op);
    }
    g.initialize(prng);
    if (ref.has_range) ref.toall = g.get_to_all_events();
    std::exponential_distribution<> timer(s.act_mBq > 0 ? tokval(s.act_mBq) : 1.0);
    std::ostringstream out; out.precision(15);
    bxdecay0::event ev;
    for (size_t i = 0; i < n; i++) {
      g.shoot(prng, ev);
      double t = 0.0;
      if (s.act_mBq > 0) t = timer(engine);
      ev.set_time(t);
      out << i << ' ';
      ev.store(out, bxdecay0::event::STORE_EVENT_TIME);
      out << '\n';
      ev.reset();
    }
    ref.d0t = out.str();
  } catch (std::exception & e) { ref.refused = true; ref.why = e.what(); }
  return ref;
}

size_t count_records(const std::string & d0t)
{
  // a record starts with "<id> <time> <label>\n"; records are separated by a blank line
  size_t n = 0, pos = 0;
  while ((pos = d0t.find("\n\n", pos)) != std::string::npos) { n++; pos += 2; }
  return n;
}

bool has_marker(const std::string & d0c) { return d0c.find("@status=0\n") != std::string::npos; }

std::map<std::string, std::string> parse_kv(const std::string & d0c)
{
  std::map<std::string, std::string> m;
  std::istringstream in(d0c); std::string l;
  while (std::getline(in, l)) { size_t e = l.find('='); if (e != std::string::npos) m[l.substr(0, e)] = l.substr(e + 1); }
  return m;
}

/// a catchable termination signal (SIGTERM / SIGINT) sent to the program at its k-th write: 0 = none
struct SignalFault { i64 at_point = 0; int signo = 0; i64 delivered = 0, default_disposition = 0; };
SignalFault g_sigfault;

struct RunResult { int rc = -99; std::string diag; std::string d0t, d0c; bool d0t_exists = false, d0c_exists = false; i64 crash_points = 0; std::string kill_violation;
                   // the companion file as a kill at the first instant at which a complete event record is on the disk would leave it
                   bool have_c_at_first_record = false; std::string c_at_first_record; i64 first_record_point = 0; };

/// files left behind on the same basename by an earlier, complete run (empty strings: none)
struct Stale { std::string d0t, d0c; bool any() const { return !d0c.empty(); } };

RunResult run_program(const std::vector<std::string> & tokens, const std::string & base, const std::string * expect_d0t, const Stale * stale = nullptr)
{
  RunResult rr;
  std::vector<std::string> store; store.push_back("bxdecay0-run");
  for (auto & t : tokens) store.push_back(t);
  std::vector<char *> argv;
  for (auto & s : store) argv.push_back(const_cast<char *>(s.c_str()));
  argv.push_back(nullptr);
  std::string t_path = base + ".d0t", c_path = base + ".d0c";
  if (!stale || !stale->any()) { fs::remove(t_path); fs::remove(c_path); }
  i64 cp0 = fs::stats().crash_points;
  struct sigaction old_term, old_int;
  sigaction(SIGTERM, nullptr, &old_term); sigaction(SIGINT, nullptr, &old_int);
  fs::set_crash_observer([&]() {
    // an operator's kill / Ctrl-C at this instant. With the default disposition the process dies here, which is the
    // kill point evaluated below; if the program has installed a handler of its own, the signal is really delivered
    // and whatever the program then does is held to the same invariants (marker only if complete)
    if (g_sigfault.signo && fs::stats().crash_points - cp0 == g_sigfault.at_point) {
      struct sigaction cur; sigaction(g_sigfault.signo, nullptr, &cur);
      bool dfl = !(cur.sa_flags & SA_SIGINFO) && (cur.sa_handler == SIG_DFL || cur.sa_handler == SIG_IGN);
      if (dfl) g_sigfault.default_disposition++;
      else { g_sigfault.delivered++; raise(g_sigfault.signo); }
    }
    // a process kill at this instant leaves exactly these bytes behind
    if (!rr.kill_violation.empty()) return;
    // the untouched pair of an earlier complete run on the same basename is consistent by itself
    if (stale && stale->any() && fs::get(c_path) == stale->d0c && fs::get(t_path) == stale->d0t) return;
    if (!expect_d0t) {
      if (has_marker(fs::get(c_path)))
        rr.kill_violation = "kill point #" + std::to_string(fs::stats().crash_points - cp0) + ": the companion file carries '@status=0' (left by an earlier run on the same basename) while the event file has already been "
                            "changed by a run that is going to be refused (" + std::to_string(fs::get(t_path).size()) + " bytes left)";
      return;
    }
    if (!rr.have_c_at_first_record && (!stale || !stale->any()) && count_records(fs::get(t_path)) >= 1) {
      rr.have_c_at_first_record = true; rr.c_at_first_record = fs::get(c_path); rr.first_record_point = fs::stats().crash_points - cp0;
    }
    if (has_marker(fs::get(c_path)) && fs::get(t_path) != *expect_d0t)
      rr.kill_violation = "kill point #" + std::to_string(fs::stats().crash_points - cp0) + ": .d0c already carries '@status=0' while .d0t holds "
                          + std::to_string(count_records(fs::get(t_path))) + " of " + std::to_string(count_records(*expect_d0t)) + " records ("
                          + std::to_string(fs::get(t_path).size()) + " of " + std::to_string(expect_d0t->size()) + " bytes)";
  });
  fs::begin_op();
  {
    // what the program says on its diagnostic streams (the reason of a refusal)
    std::ostringstream cap;
    std::streambuf * oe = std::cerr.rdbuf(cap.rdbuf()); std::streambuf * ol = std::clog.rdbuf(cap.rdbuf());
    rr.rc = bxdecay0_run_main((int)store.size(), argv.data());
    std::cerr.rdbuf(oe); std::clog.rdbuf(ol);
    rr.diag = cap.str();
  }
  fs::set_crash_observer(nullptr);
  sigaction(SIGTERM, &old_term, nullptr); sigaction(SIGINT, &old_int, nullptr); // whatever the program's main() installed
  rr.crash_points = fs::stats().crash_points - cp0;
  rr.d0t_exists = fs::exists(t_path); rr.d0c_exists = fs::exists(c_path);
  rr.d0t = fs::get(t_path); rr.d0c = fs::get(c_path);
  return rr;
}

Outcome run_run(const Plan & plan, const RunCtx & ctx)
{
  Outcome out; Trace tr;
  const bool check = ctx.prop == "C13";
  if (!fs::active()) { out.verdict = "harness-error"; out.detail = "C13 needs the file seam"; return out; }
  fs::reset();
  Settings s; bool have = false;
  std::vector<const Op *> junk;
  i64 wkind = 0, warg = 0, cuts = 0, epoch = 1600000000;
  const Op * rerun = nullptr; const Op * prior = nullptr;
  for (const Op & op : plan.ops) {
    if (op.k == "cl") { s = settings_of(op); have = true; }
    else if (op.k == "junk") junk.push_back(&op);
    else if (op.k == "wfault") { wkind = op.arg(0); warg = op.arg(1); }
    else if (op.k == "cuts") cuts = op.arg(0);
    else if (op.k == "sig") { g_sigfault.at_point = op.arg(0); g_sigfault.signo = op.arg(1) == 2 ? SIGINT : SIGTERM; }
    else if (op.k == "epoch") epoch = op.arg(0);
    else if (op.k == "rerun") rerun = &op;
    else if (op.k == "prior") prior = &op;
  }
  if (!have) { out.trace = 1; return out; }
  std::string base = fs::root() + "/run/out";
  std::vector<std::string> tokens = tokens_of(s, base);
  // malformed command lines: only edits whose refusal is certain whatever the rest of the line is
  bool malformed = false;
  for (const Op * j : junk) {
    i64 kind = j->arg(1);
    if (kind == 0) { tokens.insert(tokens.begin(), j->str(0)); malformed = true; }            // unknown option in front: parsed first
    else if (kind == 1) { tokens.push_back(j->str(0)); malformed = true; }                       // known option as the last token: its value is missing
    else if (kind == 2) {                                                                        // the value of a numeric option replaced by garbage
      std::vector<size_t> vals;
      for (size_t i = 0; i + 1 < tokens.size(); i++)
        if (tokens[i] == "-s" || tokens[i] == "-n" || tokens[i] == "--nb-events" || tokens[i] == "-l" || tokens[i] == "-m" || tokens[i] == "-a" || tokens[i] == "-e"
            || tokens[i] == "-E")
          vals.push_back(i + 1);
      if (!vals.empty()) { tokens[vals[(size_t)(j->arg(0) % (i64)vals.size())]] = j->str(0); malformed = true; }
    }
    else if (kind == 5) {                                                                        // the value of an INTEGER option replaced by a number no int can hold
      std::vector<size_t> vals;
      for (size_t i = 0; i + 1 < tokens.size(); i++) {
        bool small_range = tokens[i] == "-l" || tokens[i] == "-m" || tokens[i] == "-n" || tokens[i] == "--nb-events" || tokens[i] == "--pgop-mdl-rank";
        bool beyond64 = j->str(0).size() >= 20; // a seed may legitimately be wider than int; nothing holds 10^20
        if (small_range || (tokens[i] == "-s" && beyond64)) vals.push_back(i + 1);
      }
      if (!vals.empty()) { tokens[vals[(size_t)(j->arg(0) % (i64)vals.size())]] = j->str(0); malformed = true; }
    }
    else if (kind == 3 && s.basestyle != 4) { tokens.push_back("second-positional"); malformed = true; } // a second basename
    else if (kind == 4) { tokens.insert(tokens.begin(), "1"); tokens.insert(tokens.begin(), j->str(0)); malformed = true; } // near-miss spelling of a real option, with a value
  }
  auto violation = [&](const std::string & cls, const std::string & sig, const std::string & what) {
    if (!check) return;
    std::string cl; for (auto & t : tokens) cl += t + " ";
    out.fail("C13", cls, sig, what + " [bxdecay0-run " + cl + "]");
  };
  Reference ref = malformed ? Reference() : reference_run(s);
  if (malformed) { ref.refused = true; ref.why = "malformed command line"; }
  tr.add(ref.refused); tr.adds(ref.d0t);
  // ---- faults and clock ------------------------------------------------------------------------------
  fs::faults() = fs::Faults();
  bool lossy = false;
  if (wkind == 1) fs::faults().short_write_max = std::max<i64>(1, warg);
  else if (wkind == 2) { fs::faults().enospc_after = std::max<i64>(0, warg); lossy = true; }
  else if (wkind == 3) { fs::faults().eio_at_write = std::max<i64>(0, warg); lossy = true; }
  else if (wkind == 4) { fs::faults().eio_at_write = std::max<i64>(0, warg); fs::faults().eio_write_persistent = false; lossy = true; }
  else if (wkind == 5) { fs::faults().open_errno[base + ".d0t"] = 13 /*EACCES*/; lossy = true; }  // the event file cannot be opened
  else if (wkind == 6) { fs::faults().open_errno[base + ".d0c"] = 13; lossy = true; }             // the companion file cannot be opened
  fs::faults().interior_cuts = (int)cuts; fs::faults().cut_key = plan.hash();
  // an earlier, complete, fault-free run on the same basename: its files are what this run finds
  Stale stale;
  if (prior && s.basestyle != 4) {
    fs::Faults saved = fs::faults(); fs::faults() = fs::Faults();
    fs::set_time(epoch - 86400);
    std::vector<std::string> pt = {"-s", std::to_string(prior->arg(0)), "-n", std::to_string(std::max<i64>(1, prior->arg(1))), "-c", "background", "-N", prior->str(0), base};
    RunResult pr = run_program(pt, base, nullptr);
    fs::faults() = saved;
    if (has_marker(pr.d0c) && count_records(pr.d0t) == (size_t)std::max<i64>(1, prior->arg(1))) { stale.d0t = pr.d0t; stale.d0c = pr.d0c; out.ctr["runs_on_a_basename_with_stale_files"]++; }
    else { fs::remove(base + ".d0t"); fs::remove(base + ".d0c"); }
  }
  fs::set_time(epoch);
  i64 w_err0 = fs::stats().write_errors + fs::stats().enospc + fs::stats().open_failed;
  RunResult rr = run_program(tokens, base, ref.refused ? nullptr : &ref.d0t, &stale);
  out.ctr["fault_signal_delivered_to_program_handler"] += g_sigfault.delivered;
  out.ctr["fault_signal_at_default_disposition_equals_kill_point"] += g_sigfault.default_disposition;
  const bool signalled = g_sigfault.delivered > 0;
  g_sigfault = SignalFault();
  bool write_fault_fired = (fs::stats().write_errors + fs::stats().enospc + fs::stats().open_failed) > w_err0;
  out.ctr["fault_open_failed_fired"] += fs::stats().open_failed;
  fs::faults() = fs::Faults();
  tr.add((u64)rr.rc); tr.adds(rr.d0t); tr.adds(rr.d0c);
  out.ctr["crash_points"] += rr.crash_points;
  out.ctr["write_calls"] += fs::stats().writes;
  out.ctr["fault_short_writes_fired"] += fs::stats().short_writes;
  out.ctr["fault_write_eio_fired"] += fs::stats().write_errors;
  out.ctr["fault_enospc_fired"] += fs::stats().enospc;
  out.ctr["simulated_epoch_span_s"] += std::llabs(epoch - 1600000000);
  std::string clclass = std::string(s.cat == 1 ? "dbd" : (s.cat == 2 ? "bkg" : "nocat")) + (s.emin >= 0 || s.emax >= 0 ? "-win" : "") + (s.act_mBq >= 0 ? "-act" : "")
                        + (s.mdl ? "-mdl" + std::to_string(s.mdl) : "") + (malformed ? "-malformed" : "") + "-b" + std::to_string(s.basestyle) + (s.logging ? "-g" + std::to_string(s.logging) : "");
  std::string outcome;
  size_t nrec = count_records(rr.d0t);
  if (ref.refused) {
    outcome = "refused";
    out.ctr["command_lines_refused"]++;
    bool untouched = stale.any() && rr.d0t == stale.d0t && rr.d0c == stale.d0c;
    if (!rr.kill_violation.empty()) violation("stale-marker-with-changed-event-file", "stale-marker-with-changed-event-file " + std::string(ref.refused ? "refused" : "accepted"), rr.kill_violation);
    // refusal: no event record may exist at exit (unless the files of an earlier run were left untouched)
    if (untouched) out.ctr["probe_refused_line_left_stale_files_untouched"]++;
    else if (stale.any() && rr.d0t == stale.d0t) out.ctr["probe_refused_line_left_stale_event_file_untouched"]++; // records of the earlier run, not of this one
    else if (nrec > 0 || rr.d0t.find_first_not_of(" \n\t") != std::string::npos)
      violation("events-written-for-refused-line", "events-written-for-refused-line " + clclass,
                "the reference refuses this command line (" + ref.why + ") but the program wrote " + std::to_string(nrec) + " event record(s)");
    if (has_marker(rr.d0c) && !untouched) violation("marker-for-refused-line", "marker-for-refused-line " + clclass, "'@status=0' written although the command line is refused (" + ref.why + ")");
  } else if (signalled) {
    // the program caught the signal and decided what to do: it may stop early or finish, but a marker still means complete
    outcome = "signalled";
    if (!rr.kill_violation.empty()) violation("marker-before-complete-at-kill-point", "marker-before-complete-at-kill-point signalled", rr.kill_violation);
    if (has_marker(rr.d0c) && rr.d0t != ref.d0t)
      violation("marker-after-interrupted-run", "marker-after-interrupted-run",
                "the program handled a termination signal during the run and published '@status=0' over an event file of " + std::to_string(nrec) + " record(s) ("
                    + std::to_string(rr.d0t.size()) + " bytes) where the complete file has " + std::to_string(count_records(ref.d0t)) + " (" + std::to_string(ref.d0t.size()) + " bytes)");
  } else if (!write_fault_fired) {
    outcome = "complete";
    out.ctr["command_lines_accepted"]++;
    if (!rr.kill_violation.empty()) violation("marker-before-complete-at-kill-point", "marker-before-complete-at-kill-point", rr.kill_violation);
    size_t n = s.n >= 0 ? (size_t)s.n : 1;
    if (rr.d0t != ref.d0t) {
      bool untouched2 = stale.any() && rr.d0t == stale.d0t && rr.d0c == stale.d0c;
      if ((nrec == 0 && !has_marker(rr.d0c)) || untouched2) {
        out.ctr["diag_program_refuses_what_the_api_accepts"]++; outcome = "over-refused";
        // tolerated for exactly one reason: the library API resolves a nuclide name by prefix, the program insists on a name
        // of the published list. Any other run that the API reference completes and the program abandons (cannot open a
        // file, refuses a valid option, ...) is an incomplete run without a cause.
        const std::set<std::string> & published = s.cat == 1 ? bxdecay0::dbd_isotopes() : bxdecay0::background_isotopes();
        if (published.count(s.nuc))
          violation("valid-line-not-run", "valid-line-not-run " + clclass,
                    "the program wrote no event for a command line that the library API completes and whose nuclide is in the published list; exit status "
                        + std::to_string(rr.rc) + "; it said: " + rr.diag.substr(0, 200));
        if (getenv("BXSIM_DIAG")) { std::string m = rr.diag; size_t e = m.find("error"); if (e != std::string::npos) m = m.substr(e); for (auto & ch : m) if (ch == '\n' || ch == '|' || ch == ';' || ch == '=') ch = ' '; out.ctr["overrefused: " + m.substr(0, 110)]++; }
      }
      else violation("event-file-differs-from-api", "event-file-differs-from-api " + clclass,
                     "the .d0t file (" + std::to_string(nrec) + " records, " + std::to_string(rr.d0t.size()) + " bytes) differs from what the library API yields for the same seed and settings ("
                         + std::to_string(n) + " records, " + std::to_string(ref.d0t.size()) + " bytes)");
    } else {
      out.ctr["event_files_equal_to_api"]++;
      out.ctr["records_compared"] += (i64)n;
      if (nrec != n) violation("record-count", "record-count", "expected " + std::to_string(n) + " records, found " + std::to_string(nrec));
      if (!has_marker(rr.d0c)) violation("marker-missing", "marker-missing " + clclass, "complete run without '@status=0' in the companion file");
      // companion file reports the effective settings
      auto kv = parse_kv(rr.d0c);
      // ... at every kill point: once a complete event record is on the disk, a kill leaves a companion file that already
      // reports every effective setting (evaluated on runs without a stale pair and without write faults only)
      auto kv_kill = parse_kv(rr.c_at_first_record);
      if (rr.have_c_at_first_record) out.ctr["kill_points_with_records_companion_checked"]++;
      auto expect_kv = [&](const std::string & k, const std::string & v) {
        auto it = kv.find(k);
        if (it == kv.end()) violation("companion-missing-key", "companion-missing-key " + k, "companion file lacks '" + k + "'");
        else if (it->second != v) violation("companion-wrong-value", "companion-wrong-value " + k, "companion file reports " + k + "=" + it->second + ", effective value " + v);
        else if (rr.have_c_at_first_record) {
          auto jt = kv_kill.find(k);
          if (jt == kv_kill.end() || jt->second != v)
            violation("settings-missing-at-kill-point", "settings-missing-at-kill-point",
                      "kill point #" + std::to_string(rr.first_record_point) + ": the event file already holds a complete record but the companion file (" + std::to_string(rr.c_at_first_record.size())
                          + " bytes) " + (jt == kv_kill.end() ? "lacks '" + k + "'" : "reports " + k + "=" + jt->second) + ", effective value " + v);
        }
      };
      expect_kv("nuclide", s.nuc);
      expect_kv("seed", std::to_string(s.seed >= 0 ? s.seed : 314159));
      expect_kv("nb-events", std::to_string(n));
      expect_kv("decay-category", s.cat == 1 ? "dbd" : "background");
      expect_kv("time-from-epoch-s", std::to_string(epoch));
      if (s.cat == 1) {
        expect_kv("dbd-daughter-level", std::to_string(s.level >= 0 ? s.level : 0));
        expect_kv("dbd-mode", std::to_string(s.mode));
        if (ref.has_range) { expect_kv("erange-min-energy-MeV", dstr(ref.lo)); expect_kv("erange-max-energy-MeV", dstr(ref.hi)); expect_kv("erange-toallevents", dstr(ref.toall)); }
      }
      if (s.act_mBq > 0) expect_kv("activity-Bq", dstr(tokval(s.act_mBq)));
      MdlOpt m = mdl_of(s.mdl);
      if (m.use) { expect_kv("pgops", "mdl"); expect_kv("mdl.particle_label", m.label.empty() ? "all" : m.label); expect_kv("mdl.target_particle_rank", std::to_string(m.rank));
                   expect_kv("mdl.cone_aperture_degree", dstr(m.aperture)); }
      // closing the loop with the reader: the file reads back as n events (skipped when it holds NaN: known finding C04/Pa231)
      if (rr.d0t.find("nan") == std::string::npos && !out.violated()) {
        std::string err; bool af = false; size_t got = 0;
        bool ok = sut_call(-1, [&] {
          bxdecay0::event_reader::config_type c; c.event_files = {base + ".d0t"};
          bxdecay0::event_reader rd(c, 0);
          bxdecay0::event e;
          while (rd.has_next_event()) { rd.load_next_event(e); got++; }
        }, err, af);
        if (!ok || got != n) violation("event-file-does-not-read-back", "event-file-does-not-read-back", "event_reader delivered " + std::to_string(got) + " of " + std::to_string(n) + " events" + (ok ? "" : ": " + err));
        else out.ctr["event_files_read_back"]++;
      }
      // reproducible: same argv again, other epoch, other write chunking
      if (rerun && !out.violated()) {
        fs::faults().short_write_max = rerun->arg(1);
        fs::set_time(rerun->arg(0));
        RunResult r2 = run_program(tokens, base, &ref.d0t);
        fs::faults() = fs::Faults();
        tr.adds(r2.d0t);
        out.ctr["reruns"]++;
        out.ctr["crash_points"] += r2.crash_points;
        if (r2.d0t != rr.d0t) violation("rerun-differs", "rerun-differs " + clclass, "the second run with the same arguments produced a different event file");
        if (!r2.kill_violation.empty()) violation("marker-before-complete-at-kill-point", "marker-before-complete-at-kill-point", r2.kill_violation);
        auto a = parse_kv(rr.d0c), b = parse_kv(r2.d0c);
        a.erase("time-from-epoch-s"); b.erase("time-from-epoch-s");
        if (a != b) violation("rerun-companion-differs", "rerun-companion-differs", "companion files of two identical runs differ in more than time-from-epoch-s");
      }
    }
  } else {
    outcome = "write-fault";
    out.ctr["runs_with_fired_write_fault"]++;
    // marker only if complete: under write errors the final state must satisfy the same implication
    bool untouched3 = stale.any() && rr.d0t == stale.d0t && rr.d0c == stale.d0c; // the run gave up before touching the earlier run's files
    if (!rr.kill_violation.empty()) violation("stale-marker-with-changed-event-file", "stale-marker-with-changed-event-file write-fault", rr.kill_violation);
    else if (has_marker(rr.d0c) && rr.d0t != ref.d0t && !untouched3)
      violation("marker-after-failed-writes", "marker-after-failed-writes",
                "write errors were injected (" + std::string(wkind == 2 ? "ENOSPC" : (wkind >= 5 ? "open failure" : "EIO")) + "), the .d0t file holds " + std::to_string(nrec) + " of "
                    + std::to_string(count_records(ref.d0t)) + " records, yet the companion file ends with '@status=0' (exit status " + std::to_string(rr.rc) + ")");
    else out.ctr["probe_write_fault_without_marker"]++;
  }
  (void)lossy;
  out.cover.push_back(clclass + "/" + outcome + "/w" + std::to_string(wkind));
  out.trace = tr.h;
  return out;
}

// ---- plan generator -------------------------------------------------------------------------------
Plan gen_run(u64 seed, u64 idx, const RunCtx & ctx)
{
  Plan p; p.suite = "run"; p.seed = seed; p.idx = idx;
  Rng r(hmix(hmix(seed, hstr("run")), idx));
  Op c; c.k = "cl";
  i64 cat, level = -1, mode = -1, emin = -1, emax = -1;
  std::string nuc;
  u64 d = r.below(100);
  const auto & cheap = dbd_cheap();
  if (d < 40) { cat = 2; nuc = r.pick(bkg_names()); }
  else if (d < 75 && !cheap.empty()) {
    // one in seven of these is a quadrature-based mode (milliseconds per initialise): the modes an energy window applies to
    const DbdEntry & e = (d >= 70 && !dbd_quad().empty()) ? r.pick(dbd_quad()) : r.pick(cheap);
    cat = 1; nuc = e.nuc; level = r.chance(0.2) && e.level == 0 ? -1 : e.level; mode = e.mode;
    if (mode_supports_window(e.mode) && e.e0_keV > 300 && r.chance(e.qng_calls > 0 ? 0.7 : 0.35)) {
      i64 lo = r.range(0, (i64)e.e0_keV / 2), hi = lo + (i64)e.e0_keV / 2;
      u64 k = r.below(4);
      if (k == 0) { emin = lo; emax = hi; } else if (k == 1) emin = lo; else if (k == 2) emax = hi; else { emin = hi; emax = lo; } // last: inverted
    } else if (r.chance(0.08) && (!mode_supports_window(e.mode) || e.e0_keV > 1000)) { emin = 100; } // window on a mode that (mostly) does not support one
  }
  else if (d < 82) { cat = 2; nuc = r.pick(std::vector<std::string>{"Xx1", "Bi207", "Mo100", "co60"}); }   // unknown / prefix-only / wrong category
  else if (d < 88 && !cheap.empty()) { cat = 1; nuc = r.pick(bkg_names()); level = 0; mode = 1; }              // background name under dbd
  else if (d < 94 && !cheap.empty()) { const DbdEntry & e = r.pick(cheap); cat = 1; nuc = e.nuc; level = r.range(0, 12); mode = r.range(1, 24); } // arbitrary level/mode
  else { cat = r.chance(0.5) ? 0 : 2; nuc = r.chance(0.5) ? "" : "Co60"; }
  i64 seedv = r.chance(0.85) ? (i64)r.below(100000) : -1;
  i64 n = r.chance(0.9) ? r.range(1, ctx.tier == "thorough" ? 60 : 30) : (r.chance(0.5) ? -1 : 0);
  i64 act = r.chance(0.3) ? r.range(1, 5000000) : (r.chance(0.05) ? 0 : -1);
  i64 mdl = r.chance(0.25) ? r.range(1, 4) : 0;
  i64 bst = r.chance(0.8) ? (i64)r.below(4) : 4;
  if (bst == 4 && r.chance(0.7)) bst = 0;
  // a few large runs: anything that only happens beyond a block/buffer boundary (1000 events, 8 KiB, 64 KiB ...)
  if (cat == 2 && n > 0 && r.chance(ctx.tier == "thorough" ? 0.03 : 0.006)) n = r.pick(std::vector<i64>{1000, 1001, 1024, 1500, 2500, 4097});
  i64 logging = r.chance(0.75) ? 0 : (r.chance(0.8) ? r.range(1, 3) : r.range(4, 5));
  if (n > 100 && logging == 3) logging = 2;
  if (logging == 3 && n > 6) n = 6; // debug logging prints every event
  c.a = {cat, level, mode, emin, emax, seedv, n, act, mdl, bst, logging, r.chance(0.5) ? (i64)r.below(1000000) + 1 : 0}; c.s = {nuc};
  p.ops.push_back(c);
  if (r.chance(0.14)) {
    static const std::vector<std::string> unknown = {"--frobnicate", "-z", "--nbevents", "-"};
    static const std::vector<std::string> known = {"--seed", "-n", "-N", "--pgop-mdl-rank", "-a", "-e", "-b", "-g", "-s", "-c", "-m", "-l", "--pgop-mdl-cone-phi"};
    static const std::vector<std::string> garbage = {"abc", "", "--", "-5"};
    static const std::vector<std::string> nearmiss = {"--pgop-mdl-cone-apperture", "--pgop-mdl-cone-aperture2", "--pgop-mdl-", "--pgop-mdl-cone", "--pgop-mdl-particles", "--pgop-xyz-rank",
                                                     "--dbd-emid", "--dbd-emin-MeV", "--seeds", "--nuclides", "--nb-event", "--levels", "--dbd-modes", "--activity-Bq", "--decay-categories", "--basenames", "--loggings", "-S", "-L", "-M"};
    static const std::vector<std::string> huge = {"4294967301", "4294967300", "4294967296", "8589934593", "2147483648", "99999999999999999999", "-4294967295"};
    Op j; j.k = "junk"; u64 k = r.below(6);
    j.a = {(i64)r.below(30), (i64)k}; j.s = {k == 0 ? r.pick(unknown) : (k == 1 ? r.pick(known) : (k == 2 ? r.pick(garbage) : (k == 4 ? r.pick(nearmiss) : (k == 5 ? r.pick(huge) : std::string("x")))))};
    p.ops.push_back(j);
  }
  u64 f = idx % 4;
  if (f == 1) { Op w; w.k = "wfault"; w.a = {1, r.range(1, 64)}; p.ops.push_back(w); }                      // short writes only: must be invisible
  else if (f == 2) { Op w; w.k = "wfault"; u64 k = r.below(5); w.a = {(i64)(2 + k), k == 0 ? r.range(0, 6000) : r.range(0, 60)}; p.ops.push_back(w); }
  if (r.chance(0.5)) { Op o; o.k = "cuts"; o.a = {r.range(1, 3)}; p.ops.push_back(o); }
  if (f == 0 && r.chance(0.3)) { Op o; o.k = "sig"; o.a = {r.range(1, 40), (i64)r.range(1, 2)}; p.ops.push_back(o); } // SIGTERM / SIGINT at the k-th write
  if (r.chance(0.5)) { Op o; o.k = "epoch"; o.a = {(i64)r.below(4000000000ULL)}; p.ops.push_back(o); }
  if (r.chance(0.3)) { Op o; o.k = "prior"; o.a = {(i64)r.below(1000), r.chance(0.3) ? r.range(20, 90) : r.range(1, 6)}; /* often longer than the run that follows */ o.s = {r.pick(std::vector<std::string>{"Co60", "K40", "Cs137+Ba137m", "Tl208"})}; p.ops.push_back(o); }
  if (r.chance(0.4)) { Op o; o.k = "rerun"; o.a = {(i64)r.below(4000000000ULL), r.chance(0.5) ? r.range(1, 50) : 0}; p.ops.push_back(o); }
  return p;
}

std::vector<Op> simplify_run(const Op & op)
{
  std::vector<Op> v;
  if (op.k == "cl") {
    if (op.arg(6) > 1) { Op c = op; c.a[6] = op.arg(6) / 2; v.push_back(c); Op c1 = op; c1.a[6] = 1; v.push_back(c1); }
    if (op.arg(8) != 0) { Op c = op; c.a[8] = 0; v.push_back(c); }
    if (op.arg(7, -1) >= 0) { Op c = op; c.a[7] = -1; v.push_back(c); }
    if (op.arg(3, -1) >= 0 || op.arg(4, -1) >= 0) { Op c = op; c.a[3] = -1; c.a[4] = -1; v.push_back(c); }
    if (op.arg(9) != 0) { Op c = op; c.a[9] = 0; v.push_back(c); }
    if (op.arg(10) != 0) { Op c = op; c.a[10] = 0; v.push_back(c); }
  }
  if (op.k == "wfault" && op.arg(1) > 0) { Op c = op; c.a[1] = op.arg(1) / 2; v.push_back(c); }
  return v;
}
bool pinned_run(const Op & op) { return op.k == "cl"; }

SuiteRegistrar reg_run({"run", "bxdecay0-run main() in-process over SimFS/SimClock: API equality, reruns, companion, kill points, write faults, refusals (C13)", gen_run,
                        run_run, simplify_run, pinned_run});

} // namespace
} // namespace sim
