// bxsim: runner, worker pool, violation gate (determinism + shrinking + fresh replay), evidence.
//
// The parent process never executes SUT code: every SUT execution happens in a forked child
// (persistent workers for throughput, one-shot children for gating/shrinking/replay), so a
// "fresh process" is always one fork away and function-local statics of the SUT start pristine.
#include "core.h"
#include "simfs.h"
#include <algorithm>
#include <cerrno>
#include <chrono>
#include <csignal>
#include <cstdio>
#include <cstdlib>
#include <fcntl.h>
#include <fstream>
#include <iostream>
#include <poll.h>
#include <sys/stat.h>
#include <sys/types.h>
#include <sys/wait.h>
#include <unistd.h>

#if defined(SIM_FLAVOUR_asan)
extern "C" __attribute__((used, visibility("default"))) const char * __asan_default_options()
{
  return "exitcode=77:detect_leaks=0:abort_on_error=0:allocator_may_return_null=1:detect_stack_use_after_return=0";
}
extern "C" __attribute__((used, visibility("default"))) const char * __ubsan_default_options()
{
  return "print_stacktrace=1:halt_on_error=1:exitcode=77";
}
#endif
#if defined(SIM_FLAVOUR_tsan)
extern "C" __attribute__((used, visibility("default"))) const char * __tsan_default_options()
{
  return "exitcode=78:halt_on_error=0:report_signal_unsafe=0:second_deadlock_stack=1";
}
#endif

namespace sim {

void suite_process_init(bool warm); // env.cc: per-process environment; warm = exercise the library's lazily initialised statics once

static double now_s()
{
  using namespace std::chrono;
  return duration<double>(steady_clock::now().time_since_epoch()).count();
}

static std::string g_san_dir = build_dir() + "/san";
static std::string g_self;
static bool g_fresh_runs = false; // --fresh 1: every run executes in a process forked from a worker that never ran SUT code
std::string self_exe() { return g_self; }
std::string san_dir() { return g_san_dir; }

static void quiet_stdio()
{
  int dn = open("/dev/null", O_WRONLY);
  if (dn >= 0) {
    if (!getenv("BXSIM_CHATTER")) { dup2(dn, 1); dup2(dn, 2); }
    close(dn);
  }
}

static Outcome execute(const Plan & plan, const RunCtx & ctx)
{
  const Suite * s = find_suite(plan.suite);
  Outcome o;
  if (!s) { o.verdict = "harness-error"; o.detail = "unknown suite " + plan.suite; return o; }
  try {
    for (const Plan & q : plan.pre) {
      const Suite * sq = find_suite(q.suite);
      if (sq) { try { (void)sq->run(q, ctx); } catch (...) {} }
    }
    if (plan.pre.empty()) o = s->run(plan, ctx);
    else { Plan main = plan; main.pre.clear(); o = s->run(main, ctx); }
  } catch (std::exception & e) {
    o.verdict = "harness-error"; o.detail = std::string("uncaught in suite: ") + e.what();
  } catch (...) {
    o.verdict = "harness-error"; o.detail = "uncaught non-std exception in suite";
  }
  return o;
}

// ---- sanitizer log parsing --------------------------------------------------------------
static std::string read_file(const std::string & p)
{
  std::ifstream f(p.c_str(), std::ios::binary);
  std::ostringstream o; o << f.rdbuf();
  return o.str();
}

static void classify_san_text(const std::string & path, const std::string & txt, Outcome & o);
static void classify_san_log(pid_t pid, Outcome & o)
{
  std::string path = g_san_dir + "/log." + std::to_string((long)pid);
  std::string txt = read_file(path);
  if (txt.empty()) {
    // UBSan (combined with ASan in gcc's runtime) reports on stderr: one-shot children keep it
    path = g_san_dir + "/stderr." + std::to_string((long)pid);
    txt = read_file(path);
  }
  if (txt.empty()) return;
  classify_san_text(path, txt, o);
}
static void classify_san_text(const std::string & path, const std::string & txt, Outcome & o)
{
  std::istringstream in(txt);
  std::string line, kind, frame, harness_frame;
  bool first_stack_done = false;
  while (std::getline(in, line)) {
    if (kind.empty()) {
      size_t p;
      if ((p = line.find("ERROR: AddressSanitizer: ")) != std::string::npos) {
        std::istringstream ls(line.substr(p + 25)); ls >> kind; kind = "asan:" + kind;
      } else if ((p = line.find("runtime error: ")) != std::string::npos) {
        std::string rest = line.substr(p + 15);
        // keep the kind generic: strip numbers
        std::string k;
        // addresses first (0x followed by hex digits: they differ from process to process), then every other number
        for (size_t i = 0; i < rest.size();) {
          if (rest[i] == '0' && i + 1 < rest.size() && rest[i + 1] == 'x') { size_t j = i + 2; while (j < rest.size() && isxdigit((unsigned char)rest[j])) j++; k += "ADDR"; i = j; }
          else if (isdigit((unsigned char)rest[i])) { if (k.empty() || k.back() != '#') k += '#'; i++; }
          else k += rest[i++];
        }
        kind = "ubsan:" + k.substr(0, 60);
        // ubsan prefix carries file:line
        size_t r = line.find(repo_dir() + "/");
        if (r != std::string::npos && r < p) {
          std::string loc = line.substr(r, p - r);
          size_t c2 = loc.find(':');
          if (c2 != std::string::npos) { size_t c3 = loc.find(':', c2 + 1); frame = loc.substr(0, c3); }
        }
      } else if ((p = line.find("WARNING: ThreadSanitizer: ")) != std::string::npos) {
        kind = "tsan:" + line.substr(p + 26, 40);
      } else if (line.find("Assertion '") != std::string::npos) {
        kind = "glibcxx-assertion";
      }
    }
    if (!kind.empty() && line.empty()) first_stack_done = true;
    if (!kind.empty() && frame.empty() && !first_stack_done) {
      size_t r = line.find(repo_dir() + "/");
      if (r == std::string::npos && harness_frame.empty() && line.find("#") != std::string::npos) {
        size_t h = line.find("/sim/");
        if (h != std::string::npos) { harness_frame = line.substr(h); size_t sp = harness_frame.find_first_of(" \t)"); if (sp != std::string::npos) harness_frame = harness_frame.substr(0, sp); }
      }
      if (r != std::string::npos && line.find("#") != std::string::npos) {
        std::string loc = line.substr(r);
        size_t sp = loc.find_first_of(" \t)");
        if (sp != std::string::npos) loc = loc.substr(0, sp);
        // drop column
        size_t c1 = loc.find(':');
        if (c1 != std::string::npos) { size_t c2 = loc.find(':', c1 + 1); if (c2 != std::string::npos) loc = loc.substr(0, c2); }
        frame = loc;
      }
    }
  }
  if (!kind.empty()) {
    o.cls = "sanitizer";
    if (frame.empty() && !harness_frame.empty()) frame = "HARNESS:" + harness_frame;
    o.sig = kind + "@" + (frame.empty() ? "?" : frame);
    o.detail = "sanitizer report (" + path + "): " + kind + " at " + frame;
  }
}

// ---- one-shot child ---------------------------------------------------------------------
static Outcome run_fresh(const Plan & plan, const RunCtx & ctx, double timeout_s)
{
  int pfd[2];
  if (pipe(pfd) != 0) { Outcome o; o.verdict = "harness-error"; o.detail = "pipe"; return o; }
  fflush(stdout); fflush(stderr);
  pid_t pid = fork();
  if (pid == 0) {
    close(pfd[0]);
    quiet_stdio();
    if (!getenv("BXSIM_CHATTER")) {
      // keep the tail of stderr of a one-shot child: a libstdc++ assertion or terminate() message
      // is the only description of an abort()
      std::string ep = g_san_dir + "/stderr." + std::to_string((long)getpid());
      int efd = open(ep.c_str(), O_WRONLY | O_CREAT | O_TRUNC, 0644);
      if (efd >= 0) { dup2(efd, 2); close(efd); }
    }
    suite_process_init(!g_fresh_runs && plan.hint("io_points", 0) == 0 && plan.hint("pristine_ref", 0) == 0);
    Outcome o = execute(plan, ctx);
    std::string l = o.line() + "\n";
    ssize_t w = ::write(pfd[1], l.data(), l.size());
    (void)w;
    fs::cleanup_process();
    _exit(0);
  }
  close(pfd[1]);
  std::string buf;
  double t0 = now_s();
  bool timed_out = false;
  while (true) {
    struct pollfd p = {pfd[0], POLLIN, 0};
    double left = timeout_s - (now_s() - t0);
    if (left <= 0) { timed_out = true; break; }
    int r = poll(&p, 1, (int)(left * 1000) + 1);
    if (r < 0) { if (errno == EINTR) continue; break; }
    if (r == 0) { timed_out = true; break; }
    char b[4096];
    ssize_t n = ::read(pfd[0], b, sizeof b);
    if (n <= 0) break;
    buf.append(b, (size_t)n);
  }
  close(pfd[0]);
  if (timed_out) kill(pid, SIGKILL);
  int st = 0;
  waitpid(pid, &st, 0);
  Outcome o;
  if (timed_out) {
    o.verdict = "hang"; o.prop = ctx.prop; o.cls = "hang"; o.sig = "hang";
    o.detail = "no result within " + std::to_string(timeout_s) + " s (wall-clock backstop)";
    return o;
  }
  size_t nl = buf.find('\n');
  if (nl != std::string::npos && Outcome::parse_line(buf.substr(0, nl), o)) {
    // (ThreadSanitizer turns the exit status into 78 when it has reported anything: the suite has
    // already converted the report into a verdict)
    if (WIFEXITED(st) && (WEXITSTATUS(st) == 0 || WEXITSTATUS(st) == 78)) { unlink((g_san_dir + "/stderr." + std::to_string((long)pid)).c_str()); return o; }
  }
  o = Outcome();
  o.verdict = "crash"; o.prop = ctx.prop; o.cls = "crash";
  if (WIFSIGNALED(st)) { o.sig = "signal:" + std::to_string(WTERMSIG(st)); o.detail = "child killed by signal " + std::to_string(WTERMSIG(st)); }
  else { o.sig = "exit:" + std::to_string(WEXITSTATUS(st)); o.detail = "child exited with status " + std::to_string(WEXITSTATUS(st)); }
  classify_san_log(pid, o);
  if (o.cls == "crash") {
    std::string et = read_file(g_san_dir + "/stderr." + std::to_string((long)pid));
    size_t a = et.find("Assertion '");
    if (a != std::string::npos) {
      size_t e = et.find('\n', a);
      std::string msg = et.substr(a, e == std::string::npos ? std::string::npos : e - a);
      size_t fn = et.rfind('\n', a);
      std::string where = et.substr(fn == std::string::npos ? 0 : fn + 1, a - (fn == std::string::npos ? 0 : fn + 1));
      // "/usr/include/c++/12/bits/stl_vector.h:1123: reference std::vector<...>::operator[](size_type) ...: Assertion '__n < this->size()' failed."
      size_t c = where.find(": ");
      o.sig = "glibcxx-assertion:" + msg.substr(0, 80) + "@" + where.substr(0, c == std::string::npos ? 60 : c);
      o.detail = "libstdc++ assertion: " + where + msg;
    } else {
      size_t t = et.find("terminate called");
      if (t != std::string::npos) { o.sig = "terminate:" + et.substr(t, 120); for (auto & ch : o.sig) if (ch == '\n') ch = ' '; o.detail = o.sig; }
    }
  }
  unlink((g_san_dir + "/stderr." + std::to_string((long)pid)).c_str());
  return o;
}

// ---- persistent workers -----------------------------------------------------------------
struct Worker
{
  pid_t pid = -1;
  int to = -1, from = -1;
  bool busy = false;
  std::string suite; u64 idx = 0;
  double t0 = 0;
  std::string buf;
  std::vector<std::pair<std::string, u64>> hist; // runs completed by this process, in order
};


static void worker_main(int in_fd, int out_fd, u64 seed, const RunCtx & ctx)
{
  quiet_stdio();
  if (!g_fresh_runs) suite_process_init(true);
  FILE * in = fdopen(in_fd, "r");
  char line[512];
  while (fgets(line, sizeof line, in)) {
    char sname[128]; unsigned long long idx;
    if (sscanf(line, "R %127s %llu", sname, &idx) != 2) break;
    const Suite * s = find_suite(sname);
    Outcome o;
    if (!s) { o.verdict = "harness-error"; o.detail = "unknown suite"; }
    else if (g_fresh_runs) {
      // first-use behaviour of the library (function-local statics, lazily loaded catalogues) only exists
      // once per process: this worker stays pristine and runs every plan in a child of its own
      Plan p = s->gen(seed, idx, ctx);
      o = run_fresh(p, ctx, 3600);
    }
    else {
      Plan p = s->gen(seed, idx, ctx);
      o = execute(p, ctx);
    }
    std::string l = o.line() + "\n";
    size_t off = 0;
    while (off < l.size()) {
      ssize_t w = ::write(out_fd, l.data() + off, l.size() - off);
      if (w < 0) { if (errno == EINTR) continue; _exit(3); }
      off += (size_t)w;
    }
    if (o.ctr.count("process_tainted")) _exit(0); // e.g. threads parked forever after a simulated deadlock
  }
  _exit(0);
}

static std::set<int> g_parent_fds; // parent-side pipe ends: a new child must not inherit them

static bool spawn(Worker & w, u64 seed, const RunCtx & ctx)
{
  int a[2], b[2];
  if (pipe(a) || pipe(b)) return false;
  fflush(stdout); fflush(stderr);
  pid_t pid = fork();
  if (pid < 0) return false;
  if (pid == 0) {
    close(a[1]); close(b[0]);
    for (int fd : g_parent_fds) close(fd);
    worker_main(a[0], b[1], seed, ctx);
    _exit(0);
  }
  close(a[0]); close(b[1]);
  w.pid = pid; w.to = a[1]; w.from = b[0]; w.busy = false; w.buf.clear();
  g_parent_fds.insert(w.to); g_parent_fds.insert(w.from);
  return true;
}

// ---- shrinking --------------------------------------------------------------------------
struct Shrinker
{
  const Suite * suite;
  RunCtx ctx;
  std::string prop, cls, sigclass;
  int tests = 0, max_tests = 500;
  double deadline;
  double per_run_timeout;

  bool same(const Outcome & o) const { return o.violated() && o.cls == cls && (o.prop == prop || o.verdict != "violation"); }
  bool test(const Plan & p)
  {
    if (tests >= max_tests || now_s() > deadline) return false;
    tests++;
    return same(run_fresh(p, ctx, per_run_timeout));
  }
  bool droppable(const Op & op) const { return !(suite->pinned && suite->pinned(op)); }

  Plan run(Plan p)
  {
    // 0. ddmin over the prelude plans (whole plans are the unit), then over the ops inside the survivors
    if (!p.pre.empty()) {
      size_t n = 2;
      while (p.pre.size() >= 1 && tests < max_tests && now_s() < deadline) {
        { Plan q = p; q.pre.clear(); if (test(q)) { p = q; break; } }
        if (p.pre.size() == 1) break;
        size_t chunk = (p.pre.size() + n - 1) / n;
        bool reduced = false;
        // try keeping only one chunk first (fast path for a single culprit), then dropping chunks
        for (size_t start = 0; start < p.pre.size() && !reduced; start += chunk) {
          Plan q = p; q.pre.assign(p.pre.begin() + (long)start, p.pre.begin() + (long)std::min(start + chunk, p.pre.size()));
          if (test(q)) { p = q; n = 2; reduced = true; }
        }
        for (size_t start = 0; start < p.pre.size() && !reduced; start += chunk) {
          Plan q = p; q.pre.erase(q.pre.begin() + (long)start, q.pre.begin() + (long)std::min(start + chunk, p.pre.size()));
          if (test(q)) { p = q; n = std::max<size_t>(n - 1, 2); reduced = true; }
        }
        if (!reduced) { if (chunk <= 1) break; n = std::min(n * 2, p.pre.size()); }
      }
      for (size_t k = 0; k < p.pre.size(); k++) {
        for (size_t i = 0; i < p.pre[k].ops.size() && tests < max_tests && now_s() < deadline; i++) {
          if (!droppable(p.pre[k].ops[i])) continue;
          Plan q = p; q.pre[k].ops.erase(q.pre[k].ops.begin() + (long)i);
          if (test(q)) { p = q; i--; }
        }
      }
    }
    // 1. ddmin over the op list
    size_t n = 2;
    while (p.ops.size() >= 2 && tests < max_tests && now_s() < deadline) {
      size_t chunk = (p.ops.size() + n - 1) / n;
      bool reduced = false;
      for (size_t start = 0; start < p.ops.size(); start += chunk) {
        Plan q = p; q.ops.clear();
        bool dropped_any = false;
        for (size_t i = 0; i < p.ops.size(); i++) {
          bool in_chunk = i >= start && i < start + chunk;
          if (in_chunk && droppable(p.ops[i])) { dropped_any = true; continue; }
          q.ops.push_back(p.ops[i]);
        }
        if (!dropped_any) continue;
        if (test(q)) { p = q; n = std::max<size_t>(n - 1, 2); reduced = true; break; }
      }
      if (!reduced) {
        if (chunk <= 1) break;
        n = std::min(n * 2, p.ops.size());
      }
    }
    // 2. per-op simplification to fixpoint
    bool changed = true;
    while (changed && tests < max_tests && now_s() < deadline) {
      changed = false;
      for (size_t i = 0; i < p.ops.size(); i++) {
        if (droppable(p.ops[i])) {
          Plan q = p; q.ops.erase(q.ops.begin() + (long)i);
          if (test(q)) { p = q; changed = true; i--; continue; }
        }
        if (!suite->simplify) continue;
        for (const Op & cand : suite->simplify(p.ops[i])) {
          Plan q = p; q.ops[i] = cand;
          if (q.text() == p.text()) continue;
          if (test(q)) { p = q; changed = true; break; }
        }
      }
    }
    return p;
  }
};

// ---- evidence aggregation -----------------------------------------------------------------
struct Agg
{
  u64 runs = 0, ok = 0, violations = 0, harness_errors = 0;
  std::map<std::string, i64> ctr, mx;
  std::set<std::string> cover;
  std::map<std::string, u64> per_suite;
  std::vector<std::string> samples;
  void add(const std::string & suite, const Outcome & o)
  {
    runs++; per_suite[suite]++;
    if (o.verdict == "ok") ok++;
    for (auto & p : o.ctr) ctr[p.first] += p.second;
    for (auto & p : o.mx) { auto it = mx.find(p.first); if (it == mx.end() || it->second < p.second) mx[p.first] = p.second; }
    for (auto & c : o.cover) cover.insert(c);
  }
};

/// crash, sanitizer report and abort are one class for reproduction purposes: a persistent worker
/// has no stderr capture, a one-shot child has, so the fine classification may differ
static std::string norm_cls(const Outcome & o) { return (o.cls == "crash" || o.cls == "sanitizer" || o.verdict == "crash") ? "process-death" : o.cls; }

/// A run that ends without delivering a verdict ends in one of three ways: killed by the wall-clock backstop (hang), by a
/// signal, or by a sanitizer. A runaway loop shows as any of them depending on what it runs into first (the backstop after
/// N seconds, a counter overflowing after 2^31 rounds, memory exhaustion): two such outcomes, one of them a hang, are the
/// same observation. (Two deaths with different signatures are not: that is how heap-layout-dependent crashes look.)
static bool no_verdict(const Outcome & o) { return o.cls == "hang" || o.cls == "crash" || o.cls == "sanitizer" || o.verdict == "crash" || o.verdict == "hang"; }
static bool same_observation(const Outcome & a, const Outcome & b)
{
  if (a.cls == b.cls && a.sig == b.sig && a.trace == b.trace) return true;
  return no_verdict(a) && no_verdict(b) && (a.cls == "hang" || b.cls == "hang");
}

struct Suspect { std::string suite; u64 idx; Outcome o; std::vector<std::pair<std::string, u64>> hist; };

struct Found { std::string prop, cls, sig, detail, replay; int ops_before, ops_after, shrink_tests; };

static std::string arg_of(std::map<std::string, std::string> & m, const std::string & k, const std::string & d)
{
  auto it = m.find(k);
  return it == m.end() ? d : it->second;
}

static int cmd_check(std::map<std::string, std::string> & args)
{
  RunCtx ctx;
  ctx.prop = arg_of(args, "prop", "");
  ctx.tier = arg_of(args, "tier", "quick");
  u64 seed = std::stoull(arg_of(args, "seed", getenv("VERIF_SEED") ? getenv("VERIF_SEED") : "20260927"));
  double budget_s = std::stod(arg_of(args, "budget-s", "30"));
  u64 max_runs = std::stoull(arg_of(args, "runs", "1000000000"));
  int W = std::stoi(arg_of(args, "workers", "8"));
  double run_timeout = std::stod(arg_of(args, "run-timeout-s", "20"));
  std::string out_path = arg_of(args, "out", "");
  std::string replay_dir = arg_of(args, "replay-dir", verif_dir() + "/replays/" + ctx.prop);
  int det_samples = std::stoi(arg_of(args, "det-samples", "24"));
  int max_gate = std::stoi(arg_of(args, "max-gate", "6"));
  g_fresh_runs = arg_of(args, "fresh", "0") == "1";
  ctx.fresh = g_fresh_runs;

  // suites with weights "a:3,b:1"
  std::vector<std::pair<std::string, int>> suites;
  {
    std::string s = arg_of(args, "suites", "");
    std::istringstream in(s); std::string tok;
    while (std::getline(in, tok, ',')) {
      if (tok.empty()) continue;
      int w = 1; size_t c = tok.find(':');
      std::string nm = tok;
      if (c != std::string::npos) { nm = tok.substr(0, c); w = std::stoi(tok.substr(c + 1)); }
      if (!find_suite(nm)) { fprintf(stderr, "bxsim: unknown suite '%s'\n", nm.c_str()); return 2; }
      suites.push_back({nm, w});
    }
  }
  if (suites.empty()) { fprintf(stderr, "bxsim: no suites\n"); return 2; }
  std::vector<std::string> wheel;
  for (auto & s : suites) for (int i = 0; i < s.second; i++) wheel.push_back(s.first);

  mkdir(g_san_dir.c_str(), 0755);
  double t_start = now_s();
  printf("bxsim check prop=%s tier=%s seed=%llu flavour=%s workers=%d budget_s=%.0f suites=%s%s\n", ctx.prop.c_str(),
         ctx.tier.c_str(), (unsigned long long)seed, SIM_FLAVOUR_NAME, W, budget_s, arg_of(args, "suites", "").c_str(), g_fresh_runs ? " fresh-process-per-run" : "");
  fflush(stdout);

  std::vector<Worker> ws((size_t)W);
  for (auto & w : ws) if (!spawn(w, seed, ctx)) { fprintf(stderr, "spawn failed\n"); return 2; }

  Agg agg;
  std::vector<Suspect> suspects;
  std::map<std::string, u64> suspect_counts; // prop|cls|sig -> count
  std::map<std::string, std::map<u64, u64>> traces; // suite -> idx -> trace (for determinism sample)
  std::map<std::string, u64> next_idx;
  u64 issued = 0, wheel_pos = 0;
  int worker_deaths = 0;
  // determinism re-run queue: (suite, idx) re-issued later to (likely) another worker
  std::vector<std::pair<std::string, u64>> det_queue;
  u64 det_checked = 0, det_mismatch = 0;
  std::string det_detail;

  auto assign = [&](Worker & w) -> bool {
    std::string sname; u64 idx;
    bool timeup = (now_s() - t_start) > budget_s || issued >= max_runs;
    if (timeup) {
      if (det_queue.empty()) return false;
      sname = det_queue.back().first; idx = det_queue.back().second; det_queue.pop_back();
    } else {
      sname = wheel[wheel_pos++ % wheel.size()];
      idx = next_idx[sname]++;
      issued++;
    }
    char cmd[256];
    int n = snprintf(cmd, sizeof cmd, "R %s %llu\n", sname.c_str(), (unsigned long long)idx);
    if (::write(w.to, cmd, (size_t)n) != n) return false;
    w.busy = true; w.suite = sname; w.idx = idx; w.t0 = now_s();
    return true;
  };

  auto record = [&](const std::string & sname, u64 idx, const Outcome & o, const std::vector<std::pair<std::string, u64>> & hist) {
    auto & tm = traces[sname];
    auto it = tm.find(idx);
    if (it != tm.end()) { // determinism re-run
      det_checked++;
      if (it->second != o.trace) {
        det_mismatch++;
        if (det_detail.empty()) det_detail = sname + "#" + std::to_string(idx);
      }
      return;
    }
    agg.add(sname, o);
    if ((int)tm.size() < 100000) {
      tm[idx] = o.trace;
      // sample for determinism re-run: spread over the batch
      if ((int)(det_queue.size()) < det_samples && (idx % 7 == 3) && o.verdict == "ok") det_queue.push_back({sname, idx});
    }
    if (o.verdict == "harness-error") { agg.harness_errors++; fprintf(stderr, "harness-error %s#%llu: %s\n", sname.c_str(), (unsigned long long)idx, o.detail.c_str()); }
    else if (o.violated()) {
      agg.violations++;
      std::string key = o.prop + "|" + o.cls + "|" + o.sig;
      if (suspect_counts[key]++ == 0) suspects.push_back({sname, idx, o, hist});
    }
  };

  int active = 0;
  for (auto & w : ws) if (assign(w)) active++;
  while (active > 0) {
    std::vector<struct pollfd> pf;
    std::vector<size_t> who;
    for (size_t i = 0; i < ws.size(); i++) if (ws[i].busy) { pf.push_back({ws[i].from, POLLIN, 0}); who.push_back(i); }
    int r = poll(pf.data(), pf.size(), 500);
    if (r < 0 && errno != EINTR) break;
    double tn = now_s();
    for (size_t k = 0; k < pf.size(); k++) {
      Worker & w = ws[who[k]];
      bool dead = false;
      if (pf[k].revents & POLLIN) {
        char b[8192];
        ssize_t n = ::read(w.from, b, sizeof b);
        if (n > 0) {
          w.buf.append(b, (size_t)n);
          size_t nl;
          while ((nl = w.buf.find('\n')) != std::string::npos) {
            Outcome o;
            Outcome::parse_line(w.buf.substr(0, nl), o);
            w.buf.erase(0, nl + 1);
            record(w.suite, w.idx, o, w.hist);
            if (w.hist.size() < 50000) w.hist.push_back({w.suite, w.idx});
            w.busy = false; active--;
            if (o.ctr.count("process_tainted")) {
              // the worker retires itself after this result: replace it
              close(w.to); close(w.from); g_parent_fds.erase(w.to); g_parent_fds.erase(w.from);
              int st2 = 0; waitpid(w.pid, &st2, 0);
              Worker nw;
              if (spawn(nw, seed, ctx)) w = nw; else { w.pid = -1; break; }
            }
            if (assign(w)) active++;
          }
        } else dead = true;
      } else if (pf[k].revents & (POLLHUP | POLLERR)) dead = true;
      bool timed_out = w.busy && !dead && (tn - w.t0) > run_timeout;
      if (dead || timed_out) {
        if (timed_out) kill(w.pid, SIGKILL);
        int st = 0; waitpid(w.pid, &st, 0);
        close(w.to); close(w.from);
        g_parent_fds.erase(w.to); g_parent_fds.erase(w.from);
        worker_deaths++;
        if (w.busy) {
          Outcome o;
          if (timed_out) { o.verdict = "hang"; o.cls = "hang"; o.sig = "hang"; o.prop = ctx.prop; o.detail = "worker exceeded per-run wall-clock backstop"; }
          else {
            o.verdict = "crash"; o.cls = "crash"; o.prop = ctx.prop;
            if (WIFSIGNALED(st)) o.sig = "signal:" + std::to_string(WTERMSIG(st)); else o.sig = "exit:" + std::to_string(WEXITSTATUS(st));
            o.detail = "worker died: " + o.sig;
            classify_san_log(w.pid, o);
          }
          traces[w.suite].erase(w.idx);
          record(w.suite, w.idx, o, w.hist);
          active--;
        }
        Worker nw;
        if (worker_deaths < 2000 && spawn(nw, seed, ctx)) { w = nw; if (assign(w)) active++; }
        else { w.busy = false; w.pid = -1; }
      }
    }
  }
  for (auto & w : ws) if (w.pid > 0) { close(w.to); close(w.from); g_parent_fds.erase(w.to); g_parent_fds.erase(w.from); }
  for (auto & w : ws) if (w.pid > 0) { int st; waitpid(w.pid, &st, 0); }
  double t_batch = now_s() - t_start;

  int rc = 0;
  if (det_mismatch > 0) {
    printf("HARNESS-NONDETERMINISM: %llu of %llu re-executed runs produced a different trace hash (first: %s)\n",
           (unsigned long long)det_mismatch, (unsigned long long)det_checked, det_detail.c_str());
    rc = 2;
  }
  if (agg.harness_errors > 0) { printf("HARNESS-ERROR: %llu runs failed inside the harness\n", (unsigned long long)agg.harness_errors); rc = 2; }

  // ---- gate every distinct suspect: determinism, shrink, fresh replay ---------------------
  std::vector<Found> found;
  int gated = 0;
  std::string mk = "mkdir -p '" + replay_dir + "'";
  if (!suspects.empty()) { int mr = system(mk.c_str()); (void)mr; }
  for (auto & sp : suspects) {
    if (gated >= max_gate) { printf("note: more distinct suspects than max-gate; remaining ones counted only\n"); break; }
    gated++;
    const Suite * s = find_suite(sp.suite);
    Plan plan = s->gen(seed, sp.idx, ctx);
    double to = std::max(run_timeout, 5.0);
    Outcome a = run_fresh(plan, ctx, to), b = run_fresh(plan, ctx, to);
    bool repro = a.violated() && b.violated() && same_observation(a, b) && (norm_cls(a) == norm_cls(sp.o) || (no_verdict(a) && no_verdict(sp.o)));
    if (!repro && !sp.hist.empty() && !(a.violated() || b.violated())) {
      // the verdict may depend on process-wide state left by the runs this worker executed before:
      // replay its whole history in a fresh process in front of the suspect
      Plan bundle = plan;
      for (auto & h : sp.hist) { const Suite * hs = find_suite(h.first); if (hs) bundle.pre.push_back(hs->gen(seed, h.second, ctx)); }
      double to2 = to + 0.02 * (double)bundle.pre.size() + 30;
      Outcome a2 = run_fresh(bundle, ctx, to2), b2 = run_fresh(bundle, ctx, to2);
      if (a2.violated() && b2.violated() && a2.cls == b2.cls && a2.trace == b2.trace && norm_cls(a2) == norm_cls(sp.o)) {
        printf("note: suspect %s#%llu reproduces only after the %zu runs its worker executed before it (process-wide state); shrinking the prelude\n",
               sp.suite.c_str(), (unsigned long long)sp.idx, bundle.pre.size());
        plan = bundle; a = a2; b = b2; repro = true; to = to2;
      }
    }
    if (!repro) {
      printf("HARNESS-NONDETERMINISM: suspect %s#%llu (%s/%s) did not reproduce identically in fresh processes: worker[%s %s] fresh1[%s %s %llu] fresh2[%s %s %llu]\n",
             sp.suite.c_str(), (unsigned long long)sp.idx, sp.o.prop.c_str(), sp.o.cls.c_str(), sp.o.verdict.c_str(), sp.o.sig.c_str(),
             a.verdict.c_str(), a.sig.c_str(), (unsigned long long)a.trace, b.verdict.c_str(), b.sig.c_str(), (unsigned long long)b.trace);
      // keep the plan for inspection
      std::string pth = replay_dir + "/unreproduced-" + sp.suite + "-" + std::to_string(seed) + "-" + std::to_string(sp.idx) + ".plan";
      std::ofstream f(pth.c_str()); f << plan.text();
      rc = 2;
      continue;
    }
    Shrinker sh;
    sh.suite = s; sh.ctx = ctx; sh.prop = a.prop; sh.cls = a.cls;
    sh.deadline = now_s() + (ctx.tier == "thorough" ? 240 : 90);
    sh.per_run_timeout = to;
    int before = (int)plan.ops.size();
    Plan small = sh.run(plan);
    small.hdr["origin"] = sp.suite + "#" + std::to_string(sp.idx) + "@seed" + std::to_string(seed);
    Outcome fin = run_fresh(small, ctx, to);
    if (!(fin.violated() && (fin.cls == a.cls || (no_verdict(fin) && no_verdict(a))))) { small = plan; fin = a; }
    small.hdr["expect_cls"] = fin.cls;
    small.hdr["expect_prop"] = fin.prop;
    small.hdr["expect_sig"] = fin.sig;
    std::string pth = replay_dir + "/" + sp.suite + "-" + std::to_string(seed) + "-" + std::to_string(sp.idx) + ".plan";
    { std::ofstream f(pth.c_str()); f << small.text(); f << "# " << fin.detail << "\n"; }
    // replay the file in a brand-new process (fork+exec) and require the same class and trace
    std::string cmd = g_self + " replay '" + pth + "' --prop " + ctx.prop + " --tier " + ctx.tier + " --quiet 1 > '" + pth + ".out' 2>/dev/null";
    int st = system(cmd.c_str());
    std::string rout = read_file(pth + ".out");
    Outcome ro; bool okparse = false;
    { std::istringstream in(rout); std::string l; while (std::getline(in, l)) if (l.rfind("OUTCOME ", 0) == 0) okparse = Outcome::parse_line(l.substr(8), ro); }
    bool same = okparse && ro.violated() && same_observation(ro, fin);
    if (!same) {
      printf("HARNESS-NONDETERMINISM: replay of %s did not reproduce (exit %d): got [%s %s %s %llu] want [%s %s %s %llu]\n", pth.c_str(), st,
             ro.verdict.c_str(), ro.cls.c_str(), ro.sig.c_str(), (unsigned long long)ro.trace, fin.verdict.c_str(), fin.cls.c_str(),
             fin.sig.c_str(), (unsigned long long)fin.trace);
      rc = 2;
      continue;
    }
    Found f;
    f.prop = fin.prop.empty() ? ctx.prop : fin.prop; f.cls = fin.cls; f.sig = fin.sig; f.detail = fin.detail; f.replay = pth;
    f.ops_before = before; f.ops_after = (int)small.ops.size(); f.shrink_tests = sh.tests;
    found.push_back(f);
    printf("FOUND property=%s cls=%s sig=%s replay=%s ops=%d->%d shrink_runs=%d count=%llu detail=%s\n", f.prop.c_str(), esc(f.cls).c_str(),
           esc(f.sig).c_str(), f.replay.c_str(), f.ops_before, f.ops_after, f.shrink_tests,
           (unsigned long long)suspect_counts[sp.o.prop + "|" + sp.o.cls + "|" + sp.o.sig], esc(f.detail).c_str());
    fflush(stdout);
  }

  if (args.count("trace-out")) {
    // one line per executed run: the digest of everything that run observed (determinism self-test)
    std::ofstream tf(args["trace-out"].c_str());
    for (auto & sm : traces) for (auto & it : sm.second) tf << sm.first << " " << it.first << " " << it.second << "\n";
  }
  double wall = now_s() - t_start;
  // ---- partial evidence ----------------------------------------------------------------
  if (!out_path.empty()) {
    std::ofstream f(out_path.c_str());
    f << "{\n";
    f << " \"property_id\": " << json_str(ctx.prop) << ",\n \"tier\": " << json_str(ctx.tier) << ",\n \"seed\": " << seed << ",\n";
    f << " \"flavour\": " << json_str(SIM_FLAVOUR_NAME) << ",\n \"fresh_process_per_run\": " << (g_fresh_runs ? "true" : "false") << ",\n";
    f << " \"runs\": " << agg.runs << ",\n \"runs_ok\": " << agg.ok << ",\n \"violating_runs\": " << agg.violations << ",\n";
    f << " \"distinct\": " << agg.cover.size() << ",\n";
    f << " \"wall_s\": " << wall << ",\n \"batch_wall_s\": " << t_batch << ",\n";
    f << " \"runs_per_hour\": " << (u64)(t_batch > 0 ? agg.runs * 3600.0 / t_batch : 0) << ",\n";
    f << " \"workers\": " << W << ",\n \"worker_deaths\": " << worker_deaths << ",\n";
    f << " \"determinism_reruns\": " << det_checked << ",\n \"determinism_mismatches\": " << det_mismatch << ",\n";
    f << " \"per_suite\": {";
    { bool first = true; for (auto & p : agg.per_suite) { f << (first ? "" : ", ") << json_str(p.first) << ": " << p.second; first = false; } }
    f << "},\n \"counters\": {";
    { bool first = true; for (auto & p : agg.ctr) { f << (first ? "" : ", ") << json_str(p.first) << ": " << p.second; first = false; } }
    f << "},\n \"maxima\": {";
    { bool first = true; for (auto & p : agg.mx) { f << (first ? "" : ", ") << json_str(p.first) << ": " << p.second; first = false; } }
    f << "},\n \"cover_sample\": [";
    { int k = 0; for (auto & c : agg.cover) { if (k >= 40) break; f << (k ? ", " : "") << json_str(c); k++; } }
    f << "],\n \"samples\": [";
    {
      // write out a few actual plans explored by this run
      int k = 0;
      for (auto & s : suites) {
        const Suite * su = find_suite(s.first);
        for (u64 i = 0; i < 2 && i < next_idx[s.first]; i++) {
          Plan p = su->gen(seed, i, ctx);
          std::string t = p.text();
          if (t.size() > 1800) t = t.substr(0, 1800) + "...";
          f << (k ? ", " : "") << json_str(t); k++;
        }
      }
    }
    f << "],\n \"found\": [";
    for (size_t i = 0; i < found.size(); i++) {
      f << (i ? ", " : "") << "{\"property\": " << json_str(found[i].prop) << ", \"cls\": " << json_str(found[i].cls) << ", \"sig\": "
        << json_str(found[i].sig) << ", \"replay\": " << json_str(found[i].replay) << ", \"detail\": " << json_str(found[i].detail)
        << ", \"ops_before\": " << found[i].ops_before << ", \"ops_after\": " << found[i].ops_after << "}";
    }
    f << "],\n \"rc\": " << rc << "\n}\n";
  }
  printf("SUMMARY runs=%llu ok=%llu violating=%llu distinct_cover=%zu deaths=%d det_reruns=%llu wall=%.1fs (%.0f runs/h)\n",
         (unsigned long long)agg.runs, (unsigned long long)agg.ok, (unsigned long long)agg.violations, agg.cover.size(), worker_deaths,
         (unsigned long long)det_checked, wall, t_batch > 0 ? agg.runs * 3600.0 / t_batch : 0.0);
  // a violation that passed the gate (reproduced twice, shrunk, replayed from its file in a brand-new
  // process) stands even if another suspect of the same batch could not be reproduced
  if (!found.empty()) rc = 1;
  return rc;
}

static int cmd_replay(const std::string & path, std::map<std::string, std::string> & args)
{
  RunCtx ctx;
  ctx.prop = arg_of(args, "prop", "");
  ctx.tier = arg_of(args, "tier", "quick");
  ctx.verbose = arg_of(args, "quiet", "0") != "1";
  std::string txt = read_file(path);
  Plan p; std::string err;
  if (!Plan::parse(txt, p, err)) { fprintf(stderr, "bxsim: cannot parse plan %s: %s\n", path.c_str(), err.c_str()); return 2; }
  if (ctx.prop.empty()) ctx.prop = arg_of(p.hdr, "expect_prop", "");
  mkdir(g_san_dir.c_str(), 0755);
  Outcome o = run_fresh(p, ctx, std::stod(arg_of(args, "run-timeout-s", "60")));
  printf("OUTCOME %s\n", o.line().c_str());
  printf("replay %s: verdict=%s property=%s class=%s\n  sig=%s\n  detail=%s\n  trace=%llu\n", path.c_str(), o.verdict.c_str(), o.prop.c_str(),
         o.cls.c_str(), o.sig.c_str(), o.detail.c_str(), (unsigned long long)o.trace);
  if (o.violated()) { printf("VIOLATION property=%s replay=%s\n", o.prop.empty() ? ctx.prop.c_str() : o.prop.c_str(), path.c_str()); return 1; }
  return 0;
}

static int cmd_gen(std::map<std::string, std::string> & args)
{
  RunCtx ctx; ctx.prop = arg_of(args, "prop", ""); ctx.tier = arg_of(args, "tier", "quick");
  const Suite * s = find_suite(arg_of(args, "suite", ""));
  if (!s) { fprintf(stderr, "unknown suite\n"); return 2; }
  Plan p = s->gen(std::stoull(arg_of(args, "seed", "1")), std::stoull(arg_of(args, "idx", "0")), ctx);
  fputs(p.text().c_str(), stdout);
  return 0;
}

int cmd_catalogue(std::map<std::string, std::string> & args); // configs.cc
int cmd_probe(std::map<std::string, std::string> & args);     // configs.cc
int cmd_lists_child(const std::string & planfile);            // suite_files.cc

} // namespace sim

int main(int argc, char ** argv)
{
  using namespace sim;
  {
    char buf[4096]; ssize_t n = readlink("/proc/self/exe", buf, sizeof buf - 1);
    if (n > 0) { buf[n] = 0; g_self = buf; } else g_self = argv[0];
  }
  setenv("BXDECAY0_RESOURCE_DIR", getenv("BXSIM_RESOURCE_DIR") ? getenv("BXSIM_RESOURCE_DIR") : (repo_dir() + "/resources").c_str(), 1);
  unsetenv("BXDECAY0_DBD_GA_DATA_DIR");
  for (const char * k : {"BXDECAY0_TRACE", "BXDECAY0_TRACE_GENBBSUB", "BXDECAY0_TRACE_BB", "BXDECAY0_TRACE_GAUSS", "BXDECAY0_TRACE_FE12", "BXDECAY0_TRACE_FERMI"}) unsetenv(k);
  signal(SIGPIPE, SIG_IGN);
  if (argc < 2) {
    fprintf(stderr, "usage: bxsim check|replay|gen|suites|catalogue ...\n");
    return 2;
  }
  std::string cmd = argv[1];
  std::map<std::string, std::string> args;
  std::vector<std::string> pos;
  for (int i = 2; i < argc; i++) {
    std::string a = argv[i];
    if (a.rfind("--", 0) == 0 && i + 1 < argc) { args[a.substr(2)] = argv[i + 1]; i++; }
    else pos.push_back(a);
  }
  if (args.count("san-dir")) g_san_dir = args["san-dir"];
  if (cmd == "check") return cmd_check(args);
  if (cmd == "replay") { if (pos.empty()) return 2; return cmd_replay(pos[0], args); }
  if (cmd == "gen") return cmd_gen(args);
  if (cmd == "catalogue") return cmd_catalogue(args);
  if (cmd == "probe") return cmd_probe(args);
  if (cmd == "lists-child") { if (pos.empty()) return 2; return cmd_lists_child(pos[0]); }
  if (cmd == "suites") { for (auto & n : suite_names()) printf("%s\t%s\n", n.c_str(), find_suite(n)->what.c_str()); return 0; }
  fprintf(stderr, "bxsim: unknown command %s\n", cmd.c_str());
  return 2;
}
