// Instrumented shadow of GSL's process-wide error-handler variable. GSL keeps the handler in a plain
// static inside an uninstrumented shared library; the wrapped entry points perform the same plain
// accesses on this variable in instrumented code, so that ThreadSanitizer sees the access pattern the
// library really has (and stays quiet as soon as the library orders the accesses with a mutex).
#include "sched.h"
namespace sim {
namespace sched {
static void * g_shadow_handler = nullptr;
void shadow_handler_rw()
{
  void * old = g_shadow_handler;
  g_shadow_handler = (void *)((char *)old + 1);
}
void shadow_handler_r()
{
  void * volatile sink = g_shadow_handler;
  (void)sink;
}
} // namespace sched
} // namespace sim
