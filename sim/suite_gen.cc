// Generation suites (properties C04, C07, C08): a pool of generator instances and caller-owned
// event objects driven by an interleaved API history, with faults attached to individual ops.
//
//   op cfg     g cat level mode emin_keV emax_keV mdl ; nuclide     (destroy + construct + setters)
//   op init    g stream cancel_at allocfail_at
//   op shoot   g stream slot cancel_at allocfail_at s1_at s1_kind s2_at s2_kind s3_at s3_kind
//   op reinit  g stream                                            (reset(); same setters; initialize)
//   op recfg   g cat level mode emin_keV emax_keV mdl ; nuclide     (new setters on the SAME object: after a rejected initialise, or after reset())
//   op destroy g               | dump g (smart_dump and read-only accessors between shots)
//   op fresh   slot            | prefill slot n | reserve slot n | shrink slot | copy from to
//
// Oracles (only the property under check reports):
//   C07  every successful shot == canonical history for the same (configuration, deviate stream):
//        brand-new generator, configured identically, initialised, first shot into a brand-new event.
//   C04  every produced event is well-formed and was produced within the step budget.
//   C08  the same plans in the ASan+UBSan flavour: a sanitizer report kills the worker (runner).
#include "configs.h"
#include <sys/prctl.h>
#include <sys/wait.h>
#include <unistd.h>
#include <csignal>
#include <cerrno>
#include <cstring>
#include "simfs.h"
#include "simrandom.h"
#include <memory>

namespace sim {

std::string ga_dataset(const std::string & name);
std::string ga_root();

namespace {

const char * GEN_GA_NUC[4] = {"Se82", "Mo100", "Cd116", "Nd150"};
const char * GEN_GA_PROC[4] = {"g0", "g2", "g22", "g4"};
const char * GEN_GA_SETS[3] = {"small", "medium", "steep"};
/// gA datasets are durable state of the whole run: installed once, before any operation, from the plan header
void install_ga(const Plan & plan)
{
  fs::reset();
  i64 mask = plan.hint("ga", 0);
  for (int n = 0; n < 4; n++) for (int pr = 0; pr < 4; pr++) {
    int bit = n * 4 + pr;
    if (!((mask >> bit) & 1)) continue;
    fs::put(ga_root() + "/data/dbd_gA/v1.0/" + GEN_GA_NUC[n] + "/" + GEN_GA_PROC[pr] + "/tab_ocdf.data", ga_dataset(GEN_GA_SETS[(size_t)((n + pr + (mask >> 16)) % 3)]));
  }
}

struct Canon
{
  bool budget = false; // the canonical history itself ran out of step budget (narrow window): no verdict
  bool init_ok = false;
  bool shot_ok = false;
  std::string err;
  EventRec ev;
  u64 toall = 0;
  u64 draws = 0;
};

GenCfg cfg_of(const Op & op)
{
  GenCfg c;
  c.cat = (int)op.arg(1, 2); c.level = (int)op.arg(2); c.mode = (int)op.arg(3);
  c.emin_keV = op.arg(4, -1); c.emax_keV = op.arg(5, -1); c.mdl = (int)(op.arg(6) % 100); c.debug = op.arg(6) >= 100;
  c.nuc = op.str(0);
  return c;
}

const double SQUEEZE[8][2] = {{0.0, 0.4}, {0.4, 1.0}, {0.3, 1.0}, {0.0, 0.6}, {0.45, 0.55}, {0.9, 1.0}, {0.0, 0.1}, {0.6, 1.0}};

/// shoot op: a[5..10] = three (draw index, tail) steers; a[11], a[12] = squeeze (number of leading draws, interval index)
void set_steers(SimRandom & r, const Op & op, size_t first)
{
  for (size_t i = first; i + 1 < op.a.size() && i < first + 6; i += 2) {
    if (op.a[i] >= 0) r.steers.push_back({op.a[i], (int)op.a[i + 1]});
  }
  if (op.arg(first + 6, 0) > 0) {
    r.squeeze_n = op.arg(first + 6);
    const double * q = SQUEEZE[(size_t)(op.arg(first + 7, 0) % 8)];
    r.squeeze_lo = q[0]; r.squeeze_hi = q[1];
  }
}

u64 shot_key(i64 stream) { return hmix(hstr("shot-stream"), (u64)stream); }
u64 init_key(i64 stream) { return hmix(hstr("init-stream"), (u64)stream); }

std::string steer_key(const Op & op, size_t first)
{
  std::string s;
  for (size_t i = first; i + 1 < op.a.size() && i < first + 6; i += 2)
    if (op.a[i] >= 0) s += ":" + std::to_string(op.a[i]) + (op.a[i + 1] ? "h" : "l");
  if (op.arg(first + 6, 0) > 0) s += ":sq" + std::to_string(op.arg(first + 6)) + "/" + std::to_string(op.arg(first + 7, 0) % 8);
  return s;
}

const u64 SHOT_BUDGET = 1000000;
/// step budget of one shot: 1e6 deviates (measured maximum on the pinned tree: 460), scaled by the
/// full-range/window ratio when the user asked for an energy window (rejection cost is 1/kept-fraction)
u64 shot_budget(const bxdecay0::decay0_generator & g)
{
  double ta = g.get_to_all_events();
  if (!(ta > 1.0)) return SHOT_BUDGET;
  if (ta > 50.0) ta = 50.0;
  return (u64)(SHOT_BUDGET * ta);
}
const u64 INIT_BUDGET = 20000000;

/// the canonical history for (cfg, stream, steers)
i64 g_ga_mask = 0; // durable gA environment of the current run (part of every canonical cache key)

const Canon & canonical(const GenCfg & cfg, const Op & shoot)
{
  static std::map<std::string, Canon> cache;
  std::string key = cfg.key() + "|" + std::to_string(shoot.arg(1)) + "|" + steer_key(shoot, 5) + (cfg.mode >= 21 ? "|ga" + std::to_string(g_ga_mask) : "");
  auto it = cache.find(key);
  if (it != cache.end()) return it->second;
  if (cache.size() > 20000) cache.clear();
  Canon c;
  // Configurations whose initialise runs hundreds of quadratures (10-50 ms) use a pooled reference
  // instance (initialised once per process, shooting each requested stream into a fresh event) instead
  // of a brand-new instance per comparison. If the property holds this changes nothing; if it does not,
  // the reference has a *different* history than the instance under test, which is all the oracle needs.
  bool expensive = false;
  if (cfg.cat == 1 && cfg.mode < 21) for (auto & e : dbd_catalogue()) if (e.nuc == cfg.nuc && e.level == cfg.level && e.mode == cfg.mode) { expensive = e.qng_calls > 0; break; }
  static std::map<std::string, std::unique_ptr<SimRandom>> pool_rng; // init-time sources of the pooled instances (alive with them; declared first)
  static std::map<std::string, std::unique_ptr<bxdecay0::decay0_generator>> pool;
  static std::map<std::string, std::string> pool_err;
  try {
    std::unique_ptr<bxdecay0::decay0_generator> own;
    bxdecay0::decay0_generator * gp = nullptr;
    if (expensive) {
      auto pi = pool.find(cfg.key());
      if (pi == pool.end()) {
        if (pool.size() > 48) { pool.clear(); pool_rng.clear(); pool_err.clear(); }
        std::unique_ptr<bxdecay0::decay0_generator> ng(new bxdecay0::decay0_generator);
        apply_cfg(*ng, cfg);
        auto & rip = pool_rng[cfg.key()]; rip.reset(new SimRandom(hmix(hstr("canon-init"), hstr(cfg.key()))));
        SimRandom & ri = *rip;
        ri.begin_op(INIT_BUDGET);
        ng->initialize(ri);
        ri.begin_op(1000000);
        pi = pool.emplace(cfg.key(), std::move(ng)).first;
      }
      gp = pi->second.get();
    } else {
      own.reset(new bxdecay0::decay0_generator);
      apply_cfg(*own, cfg);
      SimRandom ri(hmix(hstr("canon-init"), hstr(cfg.key())));
      ri.begin_op(INIT_BUDGET);
      own->initialize(ri);
      gp = own.get();
    }
    bxdecay0::decay0_generator & g = *gp;
    c.init_ok = true;
    c.toall = dbits(g.get_to_all_events());
    SimRandom rs(shot_key(shoot.arg(1)));
    rs.begin_op(shot_budget(g));
    set_steers(rs, shoot, 5);
    bxdecay0::event ev;
    errno = 0;
    g.shoot(rs, ev);
    c.shot_ok = true;
    c.ev = EventRec::of(ev);
    c.draws = rs.op_draws();
  } catch (SimBudget &) {
    c.budget = true; c.err = "step budget";
  } catch (std::exception & e) {
    c.err = e.what();
  }
  return cache[key] = c;
}

// ---- references from a pristine process (pristine-process batches) -----------------------------------------
// The canonical history above is computed in the process that also runs the histories under test: a value that
// the library freezes at its first use in a process (a function-local static initialised from instance data)
// is then frozen for the reference as well. In pristine-process batches the run therefore starts, before it
// touches the library, a small server (a forked child that stays pristine); every reference is computed by a
// grandchild forked from that server, i.e. in a process in which nothing happened before.
struct RefServer
{
  int req = -1, resp = -1; pid_t pid = -1;
  std::map<std::string, Canon> cache;
  i64 died = 0;
  ~RefServer() { stop(); }
  static bool write_all(int fd, const std::string & d)
  {
    size_t off = 0;
    while (off < d.size()) { ssize_t w = ::write(fd, d.data() + off, d.size() - off); if (w < 0 && errno == EINTR) continue; if (w <= 0) return false; off += (size_t)w; }
    return true;
  }
  static bool read_n(int fd, std::string & d, size_t n)
  {
    d.resize(n); size_t off = 0;
    while (off < n) { ssize_t r = ::read(fd, &d[off], n - off); if (r < 0 && errno == EINTR) continue; if (r <= 0) return false; off += (size_t)r; }
    return true;
  }
  static bool send_msg(int fd, const std::string & m) { u64 n = m.size(); std::string h((const char *)&n, sizeof n); return write_all(fd, h + m); }
  static bool recv_msg(int fd, std::string & m) { std::string h; if (!read_n(fd, h, sizeof(u64))) return false; u64 n; memcpy(&n, h.data(), sizeof n); if (n > (1u << 24)) return false; return read_n(fd, m, (size_t)n); }
  static void put_s(std::ostringstream & o, const std::string & x) { o << x.size() << ' ' << x << ' '; }
  static std::string get_s(std::istringstream & i) { size_t n = 0; i >> n; i.get(); std::string x(n, ' '); if (n) i.read(&x[0], (std::streamsize)n); return x; }
  static std::string encode(const Canon & c)
  {
    std::ostringstream o;
    o << c.budget << ' ' << c.init_ok << ' ' << c.shot_ok << ' ' << c.toall << ' ' << c.draws << ' ' << c.ev.time << ' ' << c.ev.parts.size() << ' ';
    for (auto & q : c.ev.parts) o << q.code << ' ' << q.t << ' ' << q.px << ' ' << q.py << ' ' << q.pz << ' ';
    put_s(o, c.ev.label); put_s(o, c.err);
    return o.str();
  }
  static Canon decode(const std::string & m)
  {
    Canon c; std::istringstream i(m); size_t np = 0;
    i >> c.budget >> c.init_ok >> c.shot_ok >> c.toall >> c.draws >> c.ev.time >> np;
    for (size_t k = 0; k < np && k < 100000; k++) { PartRec q; i >> q.code >> q.t >> q.px >> q.py >> q.pz; c.ev.parts.push_back(q); }
    c.ev.label = get_s(i); c.err = get_s(i);
    return c;
  }
  void start()
  {
    int a[2], b[2];
    if (pipe(a) != 0) return;
    if (pipe(b) != 0) { close(a[0]); close(a[1]); return; }
    fflush(stdout); fflush(stderr);
    pid = fork();
    if (pid < 0) { close(a[0]); close(a[1]); close(b[0]); close(b[1]); return; }
    if (pid == 0) {
      prctl(PR_SET_PDEATHSIG, SIGKILL);
      close(a[1]); close(b[0]);
      std::string m;
      while (recv_msg(a[0], m)) {
        pid_t g = fork();
        if (g == 0) {
          prctl(PR_SET_PDEATHSIG, SIGKILL);
          std::istringstream i(m);
          GenCfg cfg; Op shoot; shoot.k = "shoot"; size_t na = 0;
          i >> cfg.cat >> cfg.level >> cfg.mode >> cfg.emin_keV >> cfg.emax_keV >> cfg.mdl >> na;
          cfg.debug = cfg.mdl >= 100; cfg.mdl %= 100;
          for (size_t k = 0; k < na && k < 64; k++) { i64 v; i >> v; shoot.a.push_back(v); }
          cfg.nuc = get_s(i);
          Canon c = canonical(cfg, shoot);
          send_msg(b[1], "R" + encode(c));
          _exit(0);
        }
        int st = 0; while (g > 0 && waitpid(g, &st, 0) < 0 && errno == EINTR) {}
        if (g < 0 || !WIFEXITED(st) || WEXITSTATUS(st) != 0) send_msg(b[1], "D");
      }
      _exit(0);
    }
    close(a[0]); close(b[1]);
    req = a[1]; resp = b[0];
  }
  void stop()
  {
    if (req >= 0) close(req);
    if (resp >= 0) close(resp);
    req = resp = -1;
    if (pid > 0) { int st; while (waitpid(pid, &st, 0) < 0 && errno == EINTR) {} }
    pid = -1;
  }
  bool up() const { return req >= 0; }
  /// nullptr when the reference process did not deliver (it died: decided elsewhere, by the run in this process)
  const Canon * get(const GenCfg & cfg, const Op & shoot)
  {
    std::string key = cfg.key() + "|" + std::to_string(shoot.arg(1)) + "|" + steer_key(shoot, 5);
    auto it = cache.find(key);
    if (it != cache.end()) return it->second.budget && it->second.err == "reference process died" ? nullptr : &it->second;
    std::ostringstream o;
    o << cfg.cat << ' ' << cfg.level << ' ' << cfg.mode << ' ' << cfg.emin_keV << ' ' << cfg.emax_keV << ' ' << (cfg.mdl + (cfg.debug ? 100 : 0)) << ' ' << shoot.a.size() << ' ';
    for (i64 v : shoot.a) o << v << ' ';
    put_s(o, cfg.nuc);
    std::string m;
    Canon c;
    if (!send_msg(req, o.str()) || !recv_msg(resp, m) || m.empty() || m[0] != 'R') { c.budget = true; c.err = "reference process died"; died++; }
    else c = decode(m.substr(1));
    auto & slot = cache[key] = c;
    return slot.budget && slot.err == "reference process died" ? nullptr : &slot;
  }
};

struct Inst
{
  // the deviate source handed to initialize(): an object of its own that stays alive as long as the generator (an
  // application's engine does); shoot() gets another object. Declared first: destroyed after the generator
  std::unique_ptr<SimRandom> init_rng;
  std::unique_ptr<bxdecay0::decay0_generator> gen;
  GenCfg cfg;
  bool has_cfg = false;
  bool inited = false;
  int shots = 0;
  std::string last; // kind of the preceding event in this instance's history (coverage)
};

const int NG = 3, NS = 3;

std::string cfg_class(const GenCfg & c)
{
  if (c.cat == 2) return "bkg";
  std::string s = "dbd-m" + std::to_string(c.mode) + (c.level > 0 ? "-exc" : "-gs");
  if (c.has_window()) s += (c.emin_keV < -1 || c.emax_keV < -1) ? "-negwin" : "-win";
  return s;
}

Outcome run_gen(const Plan & plan, const RunCtx & ctx)
{
  Outcome out;
  Trace tr;
  Inst inst[NG];
  std::unique_ptr<bxdecay0::event> slot[NS];
  std::string slot_state[NS];
  for (int i = 0; i < NS; i++) { slot[i].reset(new bxdecay0::event); slot_state[i] = "fresh"; }
  install_ga(plan);
  g_ga_mask = plan.hint("ga", 0);
  RefServer refs;
  if (plan.hint("pristine_ref", 0) != 0) refs.start();
  // the reference for (configuration, stream): from the pristine reference process when there is one
  auto reference = [&](const GenCfg & c, const Op & shoot) -> const Canon & {
    if (refs.up()) { const Canon * pc = refs.get(c, shoot); if (pc) { out.ctr["references_from_pristine_process"]++; return *pc; } out.ctr["diag_pristine_reference_unavailable"]++; }
    return canonical(c, shoot);
  };
  // post-generation operations are caller-owned shared_ptr objects: in half of the runs the client keeps ONE
  // object per preset and registers it in every generator (and again after reset), as an application would
  const bool share_ops = plan.hint("share_ops", 0) != 0;
  std::map<int, std::shared_ptr<bxdecay0::i_event_op>> op_pool;
  auto user_op = [&](int preset) -> std::shared_ptr<bxdecay0::i_event_op> {
    if (!share_ops || preset <= 0) return nullptr;
    auto & p = op_pool[preset];
    if (!p) p = make_mdl(preset);
    return p;
  };
  const bool check07 = ctx.prop == "C07";
  // the canonical history costs one extra initialise per (configuration, stream): computed where it
  // decides something (C07) or adds fresh-object generation paths under the sanitizers (C08 histories)
  const bool want_canon = check07 || (ctx.prop == "C08" && plan.suite == "gen-hist");
  const bool check04 = ctx.prop == "C04";
  i64 & n_shots = out.ctr["shots"];
  // guarded-tables seam (ASan flavour): calls of decay0_divdif made by this run with both tables re-homed
  struct GuardedCalls { Outcome & o; long c0; ~GuardedCalls() { long d = __atomic_load_n(&g_guarded_table_calls, __ATOMIC_RELAXED) - c0; if (d > 0) o.ctr["probe_divdif_calls_on_guarded_tables"] += d; } }
      guarded_calls{out, __atomic_load_n(&g_guarded_table_calls, __ATOMIC_RELAXED)};
  i64 & n_compared = out.ctr["shots_compared_with_canonical"];
  std::set<std::string> cover;

  for (size_t oi = 0; oi < plan.ops.size(); oi++) {
    const Op & op = plan.ops[oi];
    int g = (int)(((op.arg(0) % NG) + NG) % NG);
    Inst & I = inst[g];
    if (op.k == "cfg") {
      I.gen.reset(); // destroy the previous instance (if any), then a new one
      I.gen.reset(new bxdecay0::decay0_generator);
      I.cfg = cfg_of(op); I.has_cfg = false; I.inited = false; I.shots = 0; I.last = "new";
      try { apply_cfg(*I.gen, I.cfg, user_op); I.has_cfg = true; }
      catch (std::exception & e) { tr.adds("cfg-throw"); out.ctr["cfg_rejected"]++; }
      tr.adds("cfg"); tr.adds(I.cfg.key());
    } else if (op.k == "recfg") {
      // re-configure the SAME object (after a rejected initialise, or after reset() if it is initialised)
      if (!I.gen) { out.ctr["ops_skipped"]++; continue; }
      int registered = I.gen->get_operations().empty() ? 0 : I.cfg.mdl; // an un-initialised generator keeps its registered operation
      if (I.inited) { I.gen->reset(); I.inited = false; registered = 0; }
      I.cfg = cfg_of(op); I.has_cfg = false; I.shots = 0;
      try {
        // operations cannot be unregistered: the effective configuration keeps the one already there
        GenCfg c2 = I.cfg;
        if (registered != 0) { I.cfg.mdl = registered; c2.mdl = 0; }
        apply_cfg(*I.gen, c2, user_op);
        // make the object's public configuration exactly the one the canonical instance gets
        if (I.cfg.cat == 2 || !I.cfg.has_window()) I.gen->set_decay_dbd_esum_range(NAN, NAN);
        if (I.cfg.cat == 2) { I.gen->set_decay_dbd_level(bxdecay0::decay0_generator::DBD_LEVEL_INVALID); I.gen->set_decay_dbd_mode(bxdecay0::DBDMODE_UNDEF); }
        I.has_cfg = I.gen->get_operations().size() == preset_parts(I.cfg.mdl).size();
      } catch (std::exception &) { out.ctr["cfg_rejected"]++; }
      if (I.last.rfind("init-re", 0) == 0 || I.last == "init-faulted") out.ctr["probe_reconfigured_after_failed_initialize"]++;
      I.last = "recfg-after-" + I.last;
      tr.adds("recfg"); tr.adds(I.cfg.key());
    } else if (op.k == "init") {
      if (!I.gen || !I.has_cfg || I.inited) { out.ctr["ops_skipped"]++; continue; }
      I.init_rng.reset(new SimRandom(init_key(op.arg(1))));
      SimRandom & r = *I.init_rng;
      r.begin_op(INIT_BUDGET);
      r.cancel_at = op.arg(2, -1);
      std::string err; bool afired = false;
      bool ok = sut_call(op.arg(3, -1), [&] { I.gen->initialize(r); }, err, afired);
      if (afired) out.ctr["fault_alloc_fail_fired"]++;
      if (r.cancelled) out.ctr["fault_cancel_in_init_fired"]++;
      bool faulted = r.cancelled || afired || r.over_budget;
      const bool init_over_budget = r.over_budget; const u64 init_draws = r.op_draws();
      I.inited = I.gen->is_initialized();
      tr.adds("init"); tr.add(ok); tr.add(r.op_draws());
      I.last = ok ? "init" : (faulted ? "init-faulted" : "init-refused");
      if (r.over_budget) {
        // with an energy window the cost is 1/(kept fraction) by the user's choice: not a liveness bug
        bool windowed = I.cfg.has_window();
        if (windowed) out.ctr["window_too_narrow_skipped"]++;
        else if (check04)
          out.fail("C04", "unbounded-work", "init-over-budget cfg=" + cfg_class(I.cfg) + " nuclide=" + I.cfg.nuc,
                   "initialize consumed more than " + std::to_string(INIT_BUDGET) + " deviates for " + I.cfg.key());
      }
      if (!faulted && check07) {
        // acceptance itself must not depend on history
        Op probe; probe.k = "shoot"; probe.a = {0, 0, 0, -1, -1};
        const Canon & c = reference(I.cfg, probe);
        if (!c.budget && c.init_ok != ok) {
          out.fail("C07", "init-outcome-differs", "init-outcome-differs cfg=" + cfg_class(I.cfg),
                   "op#" + std::to_string(oi) + " initialize " + (ok ? "succeeded" : "failed (" + err + ")") + " for " + I.cfg.key()
                       + " but a pristine instance " + (c.init_ok ? "initialises" : "refuses (" + c.err + ")"));
        }
      }
      if (ok && plan.hint("off_catalogue", 0)) out.ctr["probe_off_catalogue_configuration_accepted"]++;
      if (!ok && !faulted) { out.ctr["config_rejected_by_initialize"]++; if (getenv("BXSIM_DIAG")) out.ctr["rejected: " + I.cfg.key() + " " + err.substr(0, 80)]++; }
      (void)init_over_budget; (void)init_draws;
      r.begin_op(1000000); // should the library keep drawing from this object after initialize(): a source like any other
    } else if (op.k == "reinit") {
      if (!I.gen || !I.inited) { out.ctr["ops_skipped"]++; continue; }
      I.gen->reset();
      I.inited = false;
      try {
        apply_cfg(*I.gen, I.cfg, user_op);
        I.init_rng.reset(new SimRandom(init_key(op.arg(1))));
        SimRandom & r = *I.init_rng;
        r.begin_op(INIT_BUDGET);
        I.gen->initialize(r);
        r.begin_op(1000000);
        I.inited = true;
      } catch (std::exception & e) {
        if (check07)
          out.fail("C07", "reinit-refused", "reinit-refused cfg=" + cfg_class(I.cfg),
                   "op#" + std::to_string(oi) + " reset + same settings + initialize threw: " + e.what());
      }
      I.last = "reinit"; I.shots = 0;
      out.ctr["reinit"]++;
      tr.adds("reinit"); tr.add(I.inited);
    } else if (op.k == "destroy") {
      I.gen.reset(); I.has_cfg = false; I.inited = false;
      tr.adds("destroy");
    } else if (op.k == "shoot") {
      if (!I.gen || !I.inited) { out.ctr["ops_skipped"]++; continue; }
      int s = (int)(((op.arg(2) % NS) + NS) % NS);
      bxdecay0::event & ev = *slot[s];
      size_t cap_before = ev.get_particles().capacity();
      SimRandom r(shot_key(op.arg(1)));
      u64 budget = shot_budget(*I.gen);
      r.begin_op(budget);
      r.cancel_at = op.arg(3, -1);
      set_steers(r, op, 5);
      std::string err; bool afired = false;
      // ambient thread state on entry: errno holds whatever the caller's last failed call left there (decided by the plan);
      // the reference is computed with errno == 0
      { static const int AMBIENT[4] = {0, EDOM, ERANGE, EINTR}; errno = AMBIENT[(size_t)(hmix((u64)op.arg(1), oi) % 4)]; if (errno) out.ctr["fault_ambient_errno_set_before_shot"]++; }
      bool ok = sut_call(op.arg(4, -1), [&] { I.gen->shoot(r, ev); }, err, afired);
      if (afired) out.ctr["fault_alloc_fail_fired"]++;
      bool faulted = r.cancelled || afired;
      if (r.cancelled) out.ctr["fault_cancel_in_shot_fired"]++;
      // a squeezed stream is a legal sequence but not an independent-uniform one: the work bound is stated for
      // independent deviates, so running out of budget under a squeeze decides nothing (the event predicate does)
      if (r.over_budget && r.squeeze_n > 0) { out.ctr["squeezed_stream_budget_inconclusive"]++; faulted = true; r.over_budget = false; }
      if (r.over_budget && I.gen->get_to_all_events() > 50.0) { out.ctr["window_too_narrow_skipped"]++; faulted = true; r.over_budget = false; }
      out.ctr["fault_steer_fired"] += (i64)r.steered_fired;
      n_shots++;
      out.ctr["deviates_drawn"] += (i64)r.op_draws();
      if ((i64)r.op_draws() > out.mx["max_draws_per_shot"]) out.mx["max_draws_per_shot"] = (i64)r.op_draws();
      tr.adds("shoot"); tr.add(ok); tr.add(r.op_draws());
      std::string fk = r.cancelled ? "cancel" : (afired ? "allocfail" : (r.squeeze_n > 0 ? "squeeze" : (r.steered_fired ? "steer" : "none")));
      if (r.squeeze_n > 0) out.ctr["fault_squeezed_stream_shots"]++;
      if (!ok) {
        I.last = faulted ? "shot-faulted" : "shot-threw";
        slot_state[s] = "after-failed-shot";
        if (r.over_budget) {
          if (check04)
            out.fail("C04", "unbounded-work", "shot-over-budget cfg=" + cfg_class(I.cfg) + " nuclide=" + I.cfg.nuc,
                     "op#" + std::to_string(oi) + " one shot consumed more than " + std::to_string(budget) + " deviates for " + I.cfg.key());
        } else if (!faulted) {
          // an initialised generator refused to generate: a difference from the canonical history if that one shoots
          if (check07) {
            const Canon & c = reference(I.cfg, op);
            if (c.shot_ok && !c.budget)
              out.fail("C07", "shot-outcome-differs", "shot-outcome-differs cfg=" + cfg_class(I.cfg),
                       "op#" + std::to_string(oi) + " shoot threw (" + err + ") but the canonical history yields an event for " + I.cfg.key());
          }
          if (check04) {
            out.fail("C04", "shot-threw", "shot-threw nuclide=" + I.cfg.nuc + " cfg=" + cfg_class(I.cfg),
                     "op#" + std::to_string(oi) + " shoot threw without any injected fault: " + err + " for " + I.cfg.key());
          }
        }
        continue;
      }
      EventRec rec = EventRec::of(ev);
      tr.add(rec.hash());
      if (ev.get_particles().capacity() > cap_before && cap_before > 0) out.ctr["probe_vector_relocated_in_reused_event"]++;
      if (cap_before == 0) out.ctr["probe_shot_into_fresh_event"]++;
      if (rec.parts.size() >= 3) out.ctr["probe_cascade_3plus_particles"]++;
      if (I.last == "shot-faulted") out.ctr["probe_shot_after_faulted_shot"]++;
      if (I.last == "reinit") out.ctr["probe_shot_after_reset"]++;
      if (slot_state[s] == "prefilled") out.ctr["probe_shot_into_prefilled_event"]++;
      cover.insert(cfg_class(I.cfg) + "/" + I.cfg.nuc + "/slot-" + slot_state[s] + "/prev-" + I.last + "/fault-" + fk);
      // C04 oracle
      {
        std::string why = malformed_reason(ev, I.cfg.mode >= 21 ? std::string("dbd_gA") : I.cfg.nuc);
        if (why.empty() && I.cfg.cat == 1 && I.cfg.mode < 21) {
          // "physically bounded": what all particles of a double-beta event carry away cannot exceed the energy released
          // by the decay (Q-value of the nuclide: committed catalogue data, not asked from the tree under test)
          static std::map<std::string, double> q_of;
          if (q_of.empty()) for (auto & e : dbd_catalogue()) { double & q = q_of[e.nuc]; q = std::max(q, e.q_keV); }
          auto qi = q_of.find(I.cfg.nuc);
          if (qi != q_of.end()) {
            double sum = 0; bool alpha = false;
            for (auto & p : ev.get_particles()) { double m = bxdecay0::particle_mass_MeV(p.get_code()); double pp = p.get_p(); sum += std::sqrt(pp * pp + m * m) - m; if (p.get_code() == bxdecay0::ALPHA) alpha = true; }
            // tolerance 5 keV: level energies are whole keV in the library's tables while the de-excitation gammas carry their
            // tabulated energies; an alpha means the event includes the decay of the daughter (Bi214 -> At214 -> ...): not bounded by Q
            if (!alpha && sum > qi->second * 1e-3 + 5e-3) { why = "kinetic-energy-above-Q"; out.mx["max_excess_over_Q_keV"] = std::max<i64>(out.mx["max_excess_over_Q_keV"], (i64)(sum * 1e3 - qi->second)); }
          }
        }
        if (!why.empty()) {
          out.ctr["malformed_events"]++;
          if (check04) {
            std::string species;
            for (auto & p : ev.get_particles())
              if (!std::isfinite(p.get_px() + p.get_py() + p.get_pz()) || !std::isfinite(p.get_time())) { species = " species=" + std::to_string((int)p.get_code()); break; }
            out.fail("C04", "malformed-event", why + " nuclide=" + I.cfg.nuc + " cfg=" + cfg_class(I.cfg) + species,
                     "op#" + std::to_string(oi) + " " + why + " in event of " + I.cfg.key() + " stream " + std::to_string(op.arg(1)) + ": " + rec.brief());
          }
        }
      }
      // C07 oracle
      if (want_canon) {
        const Canon & c = reference(I.cfg, op);
        tr.add(c.shot_ok ? c.ev.hash() : 0);
        n_compared++;
        if (check07 && !c.budget) {
          if (!c.shot_ok) {
            out.fail("C07", "shot-outcome-differs", "shot-outcome-differs cfg=" + cfg_class(I.cfg),
                     "op#" + std::to_string(oi) + " shoot succeeded but the canonical history fails (" + c.err + ") for " + I.cfg.key());
          } else if (!(c.ev == rec)) {
            out.fail("C07", "event-differs", "event-differs nuclide=" + I.cfg.nuc + " cfg=" + cfg_class(I.cfg),
                     "op#" + std::to_string(oi) + " event of " + I.cfg.key() + " stream " + std::to_string(op.arg(1)) + " (slot " + slot_state[s]
                         + ", after " + I.last + ", shot #" + std::to_string(I.shots) + " of the instance) differs from the canonical history: "
                         + first_difference(rec, c.ev));
          } else if (c.toall != dbits(I.gen->get_to_all_events())) {
            out.fail("C07", "toallevents-differs", "toallevents-differs cfg=" + cfg_class(I.cfg),
                     "op#" + std::to_string(oi) + " get_to_all_events() differs from the canonical instance for " + I.cfg.key());
          }
        }
      }
      I.shots++;
      I.last = "shot";
      slot_state[s] = "reused";
    } else if (op.k == "dump") {
      if (!I.gen) { out.ctr["ops_skipped"]++; continue; }
      std::ostringstream sink;
      try { I.gen->smart_dump(sink, "", ""); (void)I.gen->get_bb_params(); (void)I.gen->get_event_count(); } catch (std::exception &) {}
      tr.adds("dump");
    } else if (op.k == "fresh") {
      int s = (int)(((op.arg(0) % NS) + NS) % NS);
      slot[s].reset(new bxdecay0::event); slot_state[s] = "fresh";
    } else if (op.k == "prefill") {
      int s = (int)(((op.arg(0) % NS) + NS) % NS);
      bxdecay0::event & ev = *slot[s];
      ev.set_generator("garbage-label"); ev.set_time(12345.678);
      for (i64 i = 0; i < op.arg(1, 3); i++) {
        bxdecay0::particle p; p.set_code(bxdecay0::NEUTRON); p.set_time(1e9 + (double)i); p.set_momentum(1e6, -1e6, 1e-300);
        ev.add_particle(p);
      }
      slot_state[s] = "prefilled";
    } else if (op.k == "reserve") {
      int s = (int)(((op.arg(0) % NS) + NS) % NS);
      slot[s]->grab_particles().reserve((size_t)op.arg(1, 16)); slot_state[s] = "reserved";
    } else if (op.k == "shrink") {
      int s = (int)(((op.arg(0) % NS) + NS) % NS);
      slot[s]->grab_particles().clear(); slot[s]->grab_particles().shrink_to_fit(); slot_state[s] = "shrunk";
    } else if (op.k == "copy") {
      int a = (int)(((op.arg(0) % NS) + NS) % NS), b = (int)(((op.arg(1) % NS) + NS) % NS);
      if (a != b) { *slot[b] = *slot[a]; slot_state[b] = "copied"; }
    }
  }
  out.trace = tr.h;
  out.cover.assign(cover.begin(), cover.end());
  return out;
}

// ---- plan generators --------------------------------------------------------------------------

/// an energy-sum window that keeps a sizeable part of the spectrum (a window that keeps 1e-9 of it
/// is accepted by the library but makes every shot cost ~1e9 deviates by the user's own choice)
void pick_window(Rng & r, const DbdEntry & e, GenCfg & c)
{
  i64 e0 = (i64)e.e0_keV;
  if (e0 < 300) return;
  i64 lo = r.range(0, e0 / 2), hi = r.range(lo + e0 / 3, e0 + e0 / 10);
  u64 d = r.below(10);
  if (d < 4) { c.emin_keV = lo; c.emax_keV = hi; }
  else if (d < 7) c.emin_keV = lo;
  else c.emax_keV = hi;
}

GenCfg pick_cfg(Rng & r, bool cheap_only)
{
  GenCfg c;
  static const std::vector<std::string> cascades = {"Co60", "Bi207+Pb207m", "Bi214+Po214", "Tl208", "Eu152", "Ac228", "Pa234m", "Ca48+Sc48", "Y88", "I134", "Bi212+Po212", "Eu154", "Ta182"};
  u64 d = r.below(100);
  if (d < 36) { c.cat = 2; c.nuc = r.pick(bkg_names()); }
  else if (d < 50) { c.cat = 2; c.nuc = r.pick(cascades); }
  else if (d < 56) { c.cat = 1; c.nuc = GEN_GA_NUC[r.below(4)]; c.level = 0; c.mode = (int)r.range(21, 24); return c; } // gA process (dataset may be absent: refused)
  else {
    // quadrature-based modes (5,6,8,13..16,19: per-instance spectrum tables) appear in every tier; the
    // heaviest ones (thousands of quadratures) only in the thorough tier
    const auto & cat = cheap_only ? (r.chance(0.25) && !dbd_quad().empty() ? dbd_quad() : dbd_cheap()) : dbd_catalogue();
    if (cat.empty()) { c.cat = 2; c.nuc = "Co60"; return c; }
    const DbdEntry * e = &r.pick(cat);
    // favour excited daughter levels (de-excitation cascades, *low.cc files)
    for (int k = 0; k < 2 && e->level == 0; k++) e = &r.pick(cat);
    c.cat = 1; c.nuc = e->nuc; c.level = e->level; c.mode = e->mode;
    if (mode_supports_window(e->mode) && r.chance(0.3)) pick_window(r, *e, c);
  }
  if (r.chance(0.18)) c.mdl = (int)r.range(1, mdl_presets());
  if (r.chance(0.02)) c.debug = true; // traces on: the code between the traces runs too
  return c;
}

/// the same transition with another window / post-generation operation (or a neighbouring level):
/// what a cache keyed on too few fields would confuse
GenCfg variant_of(Rng & r, const GenCfg & c0)
{
  GenCfg c = c0;
  if (c.cat == 1) {
    const DbdEntry * e = nullptr;
    for (auto & x : dbd_catalogue()) if (x.nuc == c.nuc && x.level == c.level && x.mode == c.mode) { e = &x; break; }
    u64 d = r.below(10);
    if (e && mode_supports_window(c.mode) && d < 6) {
      c.emin_keV = c.emax_keV = -1;
      if (!c0.has_window()) pick_window(r, *e, c);      // windowed twin of a full-range one
      else if (r.chance(0.5)) pick_window(r, *e, c);                       // another window (else: full range)
    } else if (d < 8) {
      std::vector<const DbdEntry *> alt;
      for (auto & x : dbd_catalogue()) if (x.nuc == c.nuc && (x.level != c.level || x.mode != c.mode) && x.qng_calls == 0) alt.push_back(&x);
      if (!alt.empty()) { const DbdEntry * a = r.pick(alt); c.level = a->level; c.mode = a->mode; c.emin_keV = c.emax_keV = -1; }
    } else if (d < 9) {
      // sibling: the same mode for another nuclide (the per-mode sampler is the code the two share)
      std::vector<const DbdEntry *> alt;
      for (auto & x : dbd_catalogue()) if (x.nuc != c.nuc && x.mode == c.mode && x.qng_calls == 0) alt.push_back(&x);
      if (!alt.empty()) { const DbdEntry * a = r.pick(alt); c.nuc = a->nuc; c.level = a->level; c.emin_keV = c.emax_keV = -1; }
    } else c.mdl = (c0.mdl == 0) ? (int)r.range(1, mdl_presets()) : 0;
  } else {
    c.mdl = (c0.mdl == 0) ? (int)r.range(1, mdl_presets()) : 0;
  }
  return c;
}

Op op_cfg(int g, const GenCfg & c)
{
  Op o; o.k = "cfg"; o.a = {g, c.cat, c.level, c.mode, c.emin_keV, c.emax_keV, c.mdl + (c.debug ? 100 : 0)}; o.s = {c.nuc};
  return o;
}

Op op_shoot(int g, i64 stream, int slot)
{
  Op o; o.k = "shoot"; o.a = {g, stream, slot, -1, -1, -1, 0, -1, 0, -1, 0, 0, 0};
  return o;
}

i64 draw_index(Rng & r)
{
  // small indices are where branch selection happens; keep a tail for deep cascades
  u64 d = r.below(100);
  if (d < 60) return r.range(0, 7);
  if (d < 90) return r.range(8, 40);
  return r.range(41, 300);
}

Plan gen_hist(u64 seed, u64 idx, const RunCtx & ctx)
{
  Plan p; p.suite = "gen-hist"; p.seed = seed; p.idx = idx;
  Rng r(hmix(hmix(seed, hstr("gen-hist")), idx));
  bool faults = (idx % 3) != 0;
  p.hdr["faults"] = faults ? "1" : "0";
  p.hdr["pristine_ref"] = ctx.fresh ? "1" : "0";
  p.hdr["share_ops"] = r.chance(0.5) ? "1" : "0";
  p.hdr["ga"] = std::to_string((i64)(r.next() & 0x3ffff) | (r.chance(0.7) ? 0xffff : 0)); // which (nuclide, process) datasets exist on the simulated disk
  bool cheap = ctx.tier != "thorough" || r.chance(0.8);
  int ng = (int)r.range(1, 3);
  std::vector<GenCfg> cfgs;
  for (int g = 0; g < ng; g++) {
    // instances often share a configuration: that is where cross-instance state would show
    if (g > 0 && r.chance(0.45)) cfgs.push_back(r.chance(0.5) ? cfgs[0] : variant_of(r, cfgs[0]));
    else cfgs.push_back(pick_cfg(r, cheap));
  }
  std::vector<i64> streams;
  for (int i = 0; i < 3; i++) streams.push_back((i64)r.below(6));         // shared pool: recurs across plans
  for (int i = 0; i < 2; i++) streams.push_back((i64)(1000 + r.below(1000000)));
  for (int g = 0; g < ng; g++) {
    p.ops.push_back(op_cfg(g, cfgs[(size_t)g]));
    Op in; in.k = "init"; in.a = {g, (i64)r.below(1000), -1, -1};
    if (faults && cfgs[(size_t)g].cat == 1 && r.chance(0.15)) {
      in.a[2] = r.range(0, 3); // DBD initialise draws deviates: cancel inside it, then retry
      p.ops.push_back(in);
      in.a[1] = (i64)r.below(1000); in.a[2] = -1;
    }
    p.ops.push_back(in);
  }
  int nops = (int)r.range(4, 26);
  for (int k = 0; k < nops; k++) {
    u64 d = r.below(100);
    int g = (int)r.below((u64)ng);
    if (d < 62) {
      Op s = op_shoot(g, r.pick(streams), (int)r.below(NS));
      if (faults) {
        u64 f = r.below(100);
        if (f < 10) s.a[3] = draw_index(r);
        else if (f < 16) s.a[4] = r.range(0, 4);
        else if (f < 30) { s.a[5] = draw_index(r); s.a[6] = (i64)r.below(2); if (r.chance(0.4)) { s.a[7] = draw_index(r); s.a[8] = (i64)r.below(2); } }
      }
      p.ops.push_back(s);
    } else if (d < 68) { Op o; o.k = "fresh"; o.a = {(i64)r.below(NS)}; p.ops.push_back(o); }
    else if (d < 73) { Op o; o.k = "prefill"; o.a = {(i64)r.below(NS), r.range(1, 40)}; p.ops.push_back(o); }
    else if (d < 76) { Op o; o.k = "reserve"; o.a = {(i64)r.below(NS), r.range(1, 64)}; p.ops.push_back(o); }
    else if (d < 79) { Op o; o.k = "shrink"; o.a = {(i64)r.below(NS)}; p.ops.push_back(o); }
    else if (d < 82) { Op o; o.k = "copy"; o.a = {(i64)r.below(NS), (i64)r.below(NS)}; p.ops.push_back(o); }
    else if (d < 87) { Op o; o.k = "reinit"; o.a = {g, (i64)r.below(1000)}; p.ops.push_back(o); }
    else if (d < 89) { Op o; o.k = "dump"; o.a = {g}; p.ops.push_back(o); }
    else if (d < 92) {
      // a rejected initialise on the same object, then the real configuration: level out of range,
      // a mode the transition does not allow, or an inverted window - often with a window that must not survive
      GenCfg good = cfgs[(size_t)g], bad = pick_cfg(r, cheap);
      if (bad.cat == 1) {
        u64 k = r.below(3);
        if (k == 0) bad.level = 15;
        else if (k == 1) bad.mode = (int)r.pick(std::vector<i64>{4, 5, 8, 13, 15, 16, 19, 7, 3});
        else { bad.emin_keV = 3000; bad.emax_keV = 1000; }
        if (mode_supports_window(bad.mode) && !bad.has_window()) { bad.emin_keV = r.range(100, 900); bad.emax_keV = bad.emin_keV + r.range(300, 1500); }
      } else bad.nuc = "Xx999";
      Op b = op_cfg(g, bad); b.k = "recfg"; p.ops.push_back(b);
      Op in; in.k = "init"; in.a = {g, (i64)r.below(1000), -1, -1}; p.ops.push_back(in);
      if (r.chance(0.5)) good = pick_cfg(r, cheap);
      cfgs[(size_t)g] = good;
      Op gd = op_cfg(g, good); gd.k = "recfg"; p.ops.push_back(gd);
      in.a[1] = (i64)r.below(1000); p.ops.push_back(in);
    }
    else if (d < 95) {
      // replace the instance: destroy, construct, configure (same or another configuration), initialise
      if (r.chance(0.5)) cfgs[(size_t)g] = pick_cfg(r, cheap);
      p.ops.push_back(op_cfg(g, cfgs[(size_t)g]));
      Op in; in.k = "init"; in.a = {g, (i64)r.below(1000), -1, -1};
      p.ops.push_back(in);
    } else { Op o; o.k = "destroy"; o.a = {g}; p.ops.push_back(o); }
  }
  return p;
}

/// C04 sweep: idx enumerates the configuration space (69 background names, then every catalogue
/// triple), so a batch of N runs covers the first N configurations exactly once before wrapping.
Plan gen_sweep(u64 seed, u64 idx, const RunCtx & ctx)
{
  Plan p; p.suite = "gen-sweep"; p.seed = seed; p.idx = idx;
  Rng r(hmix(hmix(seed, hstr("gen-sweep")), idx));
  const auto & names = bkg_names();
  const auto & cat = dbd_catalogue();
  // interleave: background names recur more often than each DBD triple (they are the cheap ones)
  GenCfg c;
  u64 total = names.size() + cat.size();
  u64 pos = idx % total;
  // permute the order by seed so different seeds start elsewhere
  pos = (pos + hmix(seed, 77) % total) % total;
  const bool systematic = ctx.tier == "thorough" && idx < 8 * total;
  i64 bkg_visit = -1;
  if (idx % 5 == 4) {
    // off-catalogue: a triple of the (isotope, level 0..12, mode 1..20) grid that the pinned tree refuses. It is
    // expected to be refused; if the tree under test accepts it, its events must be well-formed like any other
    static std::vector<std::string> isos;
    static std::set<std::string> known;
    if (isos.empty()) {
      std::set<std::string> u;
      for (auto & e : cat) { u.insert(e.nuc); known.insert(e.nuc + ":" + std::to_string(e.level) + ":" + std::to_string(e.mode)); }
      isos.assign(u.begin(), u.end());
    }
    for (int tries = 0; tries < 50 && !isos.empty(); tries++) {
      c.cat = 1; c.nuc = r.pick(isos); c.level = (int)r.range(0, 12); c.mode = (int)r.range(1, 20);
      if (!known.count(c.nuc + ":" + std::to_string(c.level) + ":" + std::to_string(c.mode))) break;
    }
    p.hdr["off_catalogue"] = "1";
  }
  else if (!systematic && (idx % 5 == 1 || idx % 5 == 3)) {
    // outside the systematic part two runs in five are background nuclides (69 names, but most of the library's
    // branches): enumerated on their own counter, so that every name recurs every 69 such runs
    u64 b = idx / 5 * 2 + (idx % 5 == 3 ? 1 : 0);
    c.cat = 2; c.nuc = names[(size_t)((b + hmix(seed, 79)) % names.size())];
    bkg_visit = (i64)(b / names.size());
  }
  else if (pos < names.size()) { c.cat = 2; c.nuc = names[pos]; }
  else {
    const DbdEntry & e = cat[pos - names.size()];
    c.cat = 1; c.nuc = e.nuc; c.level = e.level; c.mode = e.mode;
    if (mode_supports_window(e.mode) && r.chance(0.25)) pick_window(r, e, c);
    else if (mode_supports_window(e.mode) && e.qng_calls < 1500 && r.chance(0.12)) {
      // unusual but min < max: a negative lower bound, or both bounds negative. The library either refuses it
      // or produces well-formed events (the CLI refuses negative bounds; the API takes any doubles)
      if (r.chance(0.5)) { c.emin_keV = -r.range(200, 3000); c.emax_keV = r.range(500, 3000); }
      else { c.emin_keV = -r.range(1500, 3000); c.emax_keV = -r.range(100, 1400); }
    }
  }
  // a quarter of the sweep runs register post-generation operations (one, or two in a row): the code between
  // generation and the operations sees every branch of every nuclide too
  if (!systematic && r.chance(0.25)) c.mdl = (int)r.range(1, mdl_presets());
  p.hdr["faults"] = "1";
  p.ops.push_back(op_cfg(0, c));
  Op in; in.k = "init"; in.a = {0, (i64)r.below(1000), -1, -1};
  p.ops.push_back(in);
  if (systematic) {
    // systematic part of the thorough tier: for every configuration, blocks of 20 draw indices, each
    // steered once to the low and once to the high tail (single-site steering, everything else uniform)
    i64 block = (i64)(idx / total);
    p.hdr["sweep"] = "systematic-tail-steering block " + std::to_string(block);
    for (i64 i = block * 20; i < block * 20 + 20; i++) for (i64 tail = 0; tail < 2; tail++) {
      Op s = op_shoot(0, (i64)r.below(1ULL << 40), 0);
      s.a[5] = i; s.a[6] = tail;
      p.ops.push_back(s);
    }
    return p;
  }
  int nshots = (int)r.range(10, ctx.tier == "thorough" ? 80 : 40);
  int mode = (int)r.below(5); // 0: uniform only, 1: sparse steering, 2: one swept index, 3: mixed, 4: squeezed leading draws
  // 5: dwell - every shot of the run has the same leading draw steered to the same tail, the rest uniform: the run stays
  // inside one rarely taken branch (selected by that draw) and samples what happens there. For background nuclides the
  // (draw index 0..7, tail) pair is enumerated by the visit number of the nuclide, every third visit.
  i64 dwell_idx = -1, dwell_tail = 0;
  if (bkg_visit >= 0 && bkg_visit % 3 == 0) { mode = 5; dwell_idx = (bkg_visit / 3) % 8; dwell_tail = (bkg_visit / 24) % 2; }
  else if (r.chance(0.08)) { mode = 5; dwell_idx = (i64)r.below(8); dwell_tail = (i64)r.below(2); }
  if (mode == 5) p.hdr["sweep"] = "dwell draw " + std::to_string(dwell_idx) + (dwell_tail ? " high" : " low");
  // 6: one deviate sequence replayed with each of its first 40 draws steered in turn to one tail: every decision of THAT
  // event (branch, decay time of a daughter, rejection) is pushed to its extreme while the path up to it stays the same
  i64 replay_stream = -1, replay_tail = 0;
  if (mode != 5 && r.chance(c.nuc.find('+') != std::string::npos ? 0.3 : 0.1)) { mode = 6; replay_stream = (i64)r.below(1ULL << 40); replay_tail = (i64)r.below(2); nshots = 40; p.hdr["sweep"] = std::string("one sequence, each draw steered ") + (replay_tail ? "high" : "low"); }
  i64 sq_n = r.pick(std::vector<i64>{100, 400, 1000}), sq_iv = (i64)r.below(8);
  for (int k = 0; k < nshots; k++) {
    Op s = op_shoot(0, (i64)r.below(1ULL << 40), (int)r.below(2));
    if (mode == 1 || (mode == 3 && r.chance(0.5))) {
      int ns = (int)r.range(1, 3);
      for (int j = 0; j < ns; j++) { s.a[(size_t)(5 + 2 * j)] = draw_index(r); s.a[(size_t)(6 + 2 * j)] = (i64)r.below(2); }
    } else if (mode == 2) { s.a[5] = k; s.a[6] = (i64)r.below(2); }
    else if (mode == 4) { s.a[11] = sq_n; s.a[12] = r.chance(0.7) ? sq_iv : (i64)r.below(8); }
    else if (mode == 5) { s.a[5] = dwell_idx; s.a[6] = dwell_tail; }
    else if (mode == 6) { s.a[1] = replay_stream; s.a[2] = 0; s.a[5] = k; s.a[6] = replay_tail; }
    p.ops.push_back(s);
    if (r.chance(0.1)) { Op o; o.k = "fresh"; o.a = {(i64)r.below(2)}; p.ops.push_back(o); }
  }
  return p;
}

std::vector<Op> simplify_gen(const Op & op)
{
  std::vector<Op> v;
  if (op.k == "shoot") {
    for (size_t i : {3u, 4u, 5u, 7u, 9u}) if (i < op.a.size() && op.a[i] >= 0) { Op c = op; c.a[i] = -1; v.push_back(c); }
    if (op.arg(11) > 0) { Op c = op; c.a[11] = 0; v.push_back(c); Op c2 = op; c2.a[11] = op.arg(11) / 2; v.push_back(c2); }
    for (size_t i : {5u, 7u, 9u}) if (i < op.a.size() && op.a[i] > 0) { Op c = op; c.a[i] = op.a[i] / 2; v.push_back(c); }
    if (op.arg(2) != 0) { Op c = op; c.a[2] = 0; v.push_back(c); }
    if (op.arg(1) > 5) { Op c = op; c.a[1] = op.arg(1) % 6; v.push_back(c); }
  } else if (op.k == "init") {
    if (op.arg(2, -1) >= 0) { Op c = op; c.a[2] = -1; v.push_back(c); }
    if (op.arg(3, -1) >= 0) { Op c = op; c.a[3] = -1; v.push_back(c); }
  } else if (op.k == "cfg" || op.k == "recfg") {
    if (op.arg(6) != 0) { Op c = op; c.a[6] = 0; v.push_back(c); }
    if (op.arg(4, -1) >= 0 || op.arg(5, -1) >= 0) { Op c = op; c.a[4] = -1; c.a[5] = -1; v.push_back(c); }
  } else if (op.k == "prefill" || op.k == "reserve") {
    if (op.arg(1) > 1) { Op c = op; c.a[1] = 1; v.push_back(c); }
  }
  return v;
}

SuiteRegistrar reg_hist({"gen-hist", "interleaved API histories over a pool of generators and event objects (C07/C08/C04)", gen_hist, run_gen,
                         simplify_gen, nullptr});
/// Systematic companion for the pristine-reference batch: 2-3 instances of the SAME DBD mode for DIFFERENT nuclides
/// (run index enumerates the modes), initialised in a drawn order, then shot alternately. What such instances share
/// beyond the common helpers is the per-mode sampler; anything it keeps from the first instance shows in the others.
Plan gen_siblings(u64 seed, u64 idx, const RunCtx & ctx)
{
  Plan p; p.suite = "gen-siblings"; p.seed = seed; p.idx = idx;
  Rng r(hmix(hmix(seed, hstr("gen-siblings")), idx));
  static std::map<int, std::vector<DbdEntry>> by_mode;
  static std::vector<int> modes;
  if (modes.empty()) {
    for (auto & e : dbd_catalogue()) if (e.qng_calls < 400) by_mode[e.mode].push_back(e);
    for (auto & m : by_mode) { std::set<std::string> nucs; for (auto & e : m.second) nucs.insert(e.nuc); if (nucs.size() >= 2) modes.push_back(m.first); }
  }
  p.hdr["faults"] = "0";
  p.hdr["pristine_ref"] = ctx.fresh ? "1" : "0";
  p.hdr["share_ops"] = "0";
  p.hdr["ga"] = "0";
  int mode = modes[(size_t)((idx + hmix(seed, 78) % modes.size()) % modes.size())];
  const auto & v = by_mode[mode];
  int ng = (int)r.range(2, 3);
  std::vector<GenCfg> cfgs;
  for (int g = 0; g < ng; g++) {
    const DbdEntry * e = &r.pick(v);
    for (int t = 0; t < 50; t++) { bool dup = false; for (auto & c : cfgs) if (c.nuc == e->nuc) dup = true; if (!dup) break; e = &r.pick(v); }
    GenCfg c; c.cat = 1; c.nuc = e->nuc; c.level = e->level; c.mode = e->mode;
    if (mode_supports_window(c.mode) && r.chance(0.3)) pick_window(r, *e, c);
    cfgs.push_back(c);
  }
  for (int g = 0; g < ng; g++) {
    p.ops.push_back(op_cfg(g, cfgs[(size_t)g]));
    Op in; in.k = "init"; in.a = {g, (i64)r.below(1000), -1, -1}; p.ops.push_back(in);
    if (r.chance(0.5)) p.ops.push_back(op_shoot(g, (i64)r.below(6), (int)r.below(NS)));
  }
  int nops = (int)r.range(3, 10);
  for (int k = 0; k < nops; k++) p.ops.push_back(op_shoot((int)r.below((u64)ng), (i64)r.below(6), (int)r.below(NS)));
  return p;
}

SuiteRegistrar reg_siblings({"gen-siblings", "2-3 instances of the same DBD mode for different nuclides, modes enumerated (C07, pristine-reference batch)", gen_siblings, run_gen,
                             simplify_gen, nullptr});

SuiteRegistrar reg_sweep({"gen-sweep", "per-configuration sweeps with tail-steered deviates (C04/C08)", gen_sweep, run_gen, simplify_gen, nullptr});

} // namespace
} // namespace sim
