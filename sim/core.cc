#include "core.h"
#include <cstdio>
#include <cstdlib>

namespace sim {

static std::map<std::string, Suite> & registry()
{
  static std::map<std::string, Suite> r;
  return r;
}
void register_suite(const Suite & s) { registry()[s.name] = s; }
const Suite * find_suite(const std::string & name)
{
  auto it = registry().find(name);
  return it == registry().end() ? nullptr : &it->second;
}
std::vector<std::string> suite_names()
{
  std::vector<std::string> v;
  for (auto & p : registry()) v.push_back(p.first);
  return v;
}

static std::string env_or(const char * k, const std::string & d) { const char * e = getenv(k); return (e && *e) ? std::string(e) : d; }
std::string repo_dir() { return env_or("BXSIM_REPO", "/repo"); }
std::string verif_dir() { return env_or("BXSIM_VERIF", "/verif"); }
std::string build_dir() { return env_or("BXSIM_BUILD", verif_dir() + "/build"); }

std::string esc(const std::string & s)
{
  std::string o;
  if (s.empty()) return "%e";
  for (unsigned char c : s) {
    if (c <= 32 || c == '%' || c == ';' || c == '=' || c == '|' || c >= 127) {
      char b[8]; std::snprintf(b, sizeof b, "%%%02X", c); o += b;
    } else o += (char)c;
  }
  return o;
}
std::string unesc(const std::string & s)
{
  if (s == "%e") return "";
  std::string o;
  for (size_t i = 0; i < s.size(); i++) {
    if (s[i] == '%' && i + 2 < s.size()) {
      unsigned v = 0; std::sscanf(s.c_str() + i + 1, "%2x", &v); o += (char)v; i += 2;
    } else o += s[i];
  }
  return o;
}
std::string json_str(const std::string & s)
{
  std::string o = "\"";
  for (unsigned char c : s) {
    if (c == '"') o += "\\\"";
    else if (c == '\\') o += "\\\\";
    else if (c == '\n') o += "\\n";
    else if (c == '\t') o += "\\t";
    else if (c < 32 || c >= 127) { char b[8]; std::snprintf(b, sizeof b, "\\u%04x", c); o += b; }
    else o += (char)c;
  }
  return o + "\"";
}

std::string Plan::text() const
{
  std::ostringstream o;
  o << "bxsim-plan v1\n";
  o << "suite " << suite << "\n";
  o << "seed " << seed << "\n";
  o << "idx " << idx << "\n";
  for (auto & p : hdr) o << "h " << esc(p.first) << " " << esc(p.second) << "\n";
  for (auto & op : ops) {
    o << "op " << esc(op.k);
    for (i64 v : op.a) o << " " << v;
    for (auto & s : op.s) o << " ; " << esc(s);
    o << "\n";
  }
  for (auto & q : pre) o << "pre " << esc(q.text()) << "\n";
  o << "end\n";
  return o.str();
}

bool Plan::parse(const std::string & text, Plan & out, std::string & err)
{
  std::istringstream in(text);
  std::string line;
  out = Plan();
  bool seen_end = false, seen_hdr = false;
  while (std::getline(in, line)) {
    if (line.empty() || line[0] == '#') continue;
    std::istringstream ls(line);
    std::string w;
    ls >> w;
    if (w == "bxsim-plan") { seen_hdr = true; continue; }
    if (w == "suite") { ls >> out.suite; continue; }
    if (w == "seed") { ls >> out.seed; continue; }
    if (w == "idx") { ls >> out.idx; continue; }
    if (w == "h") { std::string k, v; ls >> k >> v; out.hdr[unesc(k)] = unesc(v); continue; }
    if (w == "end") { seen_end = true; break; }
    if (w == "pre") {
      std::string t; ls >> t;
      Plan q; std::string e2;
      if (!Plan::parse(unesc(t), q, e2)) { err = "bad prelude plan: " + e2; return false; }
      out.pre.push_back(q);
      continue;
    }
    if (w == "op") {
      Op op; std::string k; ls >> k; op.k = unesc(k);
      std::string tok; bool strs = false;
      while (ls >> tok) {
        if (tok == ";") { strs = true; continue; }
        if (strs) op.s.push_back(unesc(tok));
        else {
          try { op.a.push_back(std::stoll(tok)); }
          catch (...) { err = "bad integer '" + tok + "'"; return false; }
        }
      }
      out.ops.push_back(op);
      continue;
    }
    err = "unknown line: " + line;
    return false;
  }
  if (!seen_hdr || !seen_end) { err = "missing header or end"; return false; }
  return true;
}

std::string Outcome::line() const
{
  std::ostringstream o;
  o << "verdict=" << esc(verdict) << "|prop=" << esc(prop) << "|cls=" << esc(cls) << "|sig=" << esc(sig)
    << "|detail=" << esc(detail.substr(0, 1500)) << "|trace=" << trace;
  o << "|ctr=";
  bool first = true;
  for (auto & p : ctr) { o << (first ? "" : ";") << esc(p.first) << "=" << p.second; first = false; }
  if (first) o << "%e";
  o << "|mx=";
  first = true;
  for (auto & p : mx) { o << (first ? "" : ";") << esc(p.first) << "=" << p.second; first = false; }
  if (first) o << "%e";
  o << "|cover=";
  first = true;
  for (auto & c : cover) { o << (first ? "" : ";") << esc(c); first = false; }
  if (first) o << "%e";
  return o.str();
}

static std::vector<std::string> split(const std::string & s, char d)
{
  std::vector<std::string> v; std::string cur;
  for (char c : s) { if (c == d) { v.push_back(cur); cur.clear(); } else cur += c; }
  v.push_back(cur);
  return v;
}

bool Outcome::parse_line(const std::string & l, Outcome & o)
{
  o = Outcome();
  bool got = false;
  for (auto & f : split(l, '|')) {
    size_t eq = f.find('=');
    if (eq == std::string::npos) continue;
    std::string k = f.substr(0, eq), v = f.substr(eq + 1);
    if (k == "verdict") { o.verdict = unesc(v); got = true; }
    else if (k == "prop") o.prop = unesc(v);
    else if (k == "cls") o.cls = unesc(v);
    else if (k == "sig") o.sig = unesc(v);
    else if (k == "detail") o.detail = unesc(v);
    else if (k == "trace") o.trace = std::stoull(v);
    else if (k == "ctr" || k == "mx") {
      if (v == "%e") continue;
      for (auto & kv : split(v, ';')) {
        size_t e2 = kv.find('=');
        if (e2 == std::string::npos) continue;
        (k == "ctr" ? o.ctr : o.mx)[unesc(kv.substr(0, e2))] = std::stoll(kv.substr(e2 + 1));
      }
    } else if (k == "cover") {
      if (v == "%e") continue;
      for (auto & c : split(v, ';')) o.cover.push_back(unesc(c));
    }
  }
  return got;
}

} // namespace sim
