// SimSched + SimGSL: a seeded scheduler over REAL threads, one per simulated client. Threads are
// parked on private futex words and released one at a time; which one runs next is decided by the
// plan. The hand-off uses raw SYS_futex in a translation unit compiled WITHOUT -fsanitize=thread, so
// it creates no happens-before edge ThreadSanitizer can see: TSan then reports logical races
// (accesses not ordered by the program's own synchronisation) although execution is serial.
//
// Schedule points: task start/end, every deviate draw, entry/exit of the wrapped
// gsl_set_error_handler_off / gsl_integration_qng / gsl_set_error_handler, and the wrapped
// pthread_mutex_lock/unlock (a task blocking on a mutex held by another task is descheduled).
#pragma once
#include "core.h"
#include "simrandom.h"
#include <functional>

namespace sim {
namespace sched {

struct Decision
{
  int kind;   // 0 = any schedule point of the task, else SP_* kind
  i64 nth;    // the nth such point executed by task `from` (1-based)
  int from;
  int to;     // preferred task to switch to (next runnable if not runnable)
  bool fired = false;
};

struct Result
{
  bool deadlock = false;
  bool stalled = false;         // harness-level stall (a lock held outside the model)
  bool step_overflow = false;
  i64 steps = 0, switches = 0, decisions_fired = 0;
  i64 qng_calls = 0, real_misses = 0, injected_misses = 0;
  i64 mutex_acquires = 0, mutex_blocks = 0;
  i64 handler_events = 0;
  i64 h0_calls = 0;             // base handler invoked by GSL while a task ran (would abort with GSL's default)
  std::string first_h0;
  i64 races = 0;                // model-level races on the process-wide GSL handler
  std::string first_race;
  bool handler_leaked = false;  // diagnostic: final handler != base handler
  std::string overlap_sig;      // order of off/miss/restore events across tasks (first 32)
};

/// Run the task bodies under the scheduler. `first` starts; `inject` = (task, quadrature index) pairs
/// at which the wrapped QNG additionally raises GSL_ETOL through the real gsl_error().
Result run(const std::vector<std::function<void()>> & bodies, std::vector<Decision> decisions, int first,
           const std::set<std::pair<int, i64>> & inject, i64 max_steps);

int current_task(); // -1 outside a task
/// reads issued by a task are schedule points only when the run starts from a pristine process (else the
/// number of reads depends on what earlier runs already loaded, and a run would not be a function of its plan)
void set_io_points(bool on);
bool io_points();
/// true when an allocation made right now by the calling thread may be a schedule point: pristine-process run,
/// inside a task, and not inside one of the scheduler's own wrappers (whose bookkeeping must stay atomic)
bool alloc_point_ok();
/// RAII: no schedule point while alive (bookkeeping of a seam - the simulated file layer's tables - must be atomic
/// with respect to the scheduler, like the scheduler's own wrappers)
struct NoPoints { NoPoints(); ~NoPoints(); };

/// process-wide counters (also outside the scheduler): used by `bxsim catalogue`
i64 total_qng_calls();
i64 total_qng_fails();

// instrumented shadow of GSL's handler variable (shadow.cc): performs the same plain accesses GSL does
void shadow_handler_rw();
void shadow_handler_r();

} // namespace sched
} // namespace sim
