// Configuration catalogue: the sampling domain of the generation suites.
#pragma once
#include "core.h"
#include <bxdecay0/decay0_generator.h>
#include <bxdecay0/event.h>
#include <memory>

namespace sim {

struct GenCfg
{
  int cat = 2;            // 1 = DBD, 2 = background
  std::string nuc;
  int level = 0;
  int mode = 0;
  i64 emin_keV = -1;      // -1: no window bound; any other value (also a negative one, e.g. -2000) is a bound in keV
  bool has_window() const { return emin_keV != -1 || emax_keV != -1; }
  i64 emax_keV = -1;
  int mdl = 0;            // 0 none, 1.. presets of the post-generation operation (1-4 momentum-direction-lock, 5-6 user-defined classes)
  bool debug = false;     // set_debug(true) on the generator (traces on the diagnostic stream)
  std::string key() const;
  bool is_dbd() const { return cat == 1; }
};

struct DbdEntry { std::string nuc; int level; int mode; i64 init_draws; i64 init_us; double q_keV; double e0_keV; i64 qng_calls = 0; i64 qng_fails = 0; };

const std::vector<std::string> & bkg_names();
const std::vector<DbdEntry> & dbd_catalogue();       // accepted (isotope, level, mode) triples (committed data file)
const std::vector<DbdEntry> & dbd_cheap();           // subset without quadrature at initialise (microseconds)
const std::vector<DbdEntry> & dbd_quad();            // subset with 1..1500 quadratures at initialise (milliseconds)
const std::vector<DbdEntry> & dbd_quad_missing();    // ... of which some really miss the QNG tolerance
bool mode_supports_window(int mode);

/// apply a configuration through the public setters (not initialised)
void apply_cfg(bxdecay0::decay0_generator & g, const GenCfg & c);
/// same, but the post-generation operation is the caller-owned object `op` (possibly shared between generators)
/// `own(p)` returns the caller-owned object for single preset p, or null (then a new object is made)
void apply_cfg(bxdecay0::decay0_generator & g, const GenCfg & c, const std::function<std::shared_ptr<bxdecay0::i_event_op>(int)> & own);
std::shared_ptr<bxdecay0::i_event_op> make_mdl(int preset); // single presets 1..mdl_single_presets()
int mdl_single_presets();
int mdl_presets();                      // single presets, then pairs of operations registered one after the other
std::vector<int> preset_parts(int preset); // the single presets a (possibly composite) preset registers, in order

/// field-by-field record of an event (never memcmp: particle has padding bytes)
struct PartRec { int code; u64 t, px, py, pz; };
struct EventRec
{
  std::string label; u64 time = 0; std::vector<PartRec> parts;
  bool operator==(const EventRec & o) const;
  static EventRec of(const bxdecay0::event & e);
  u64 hash() const;
  std::string brief() const;
};
std::string first_difference(const EventRec & a, const EventRec & b);

/// C04 well-formedness predicate; returns "" if well-formed, else a short reason (stable text)
std::string malformed_reason(const bxdecay0::event & e, const std::string & expected_label);

} // namespace sim
