// Deterministic-simulation kernel for bxdecay0: hashing PRNG, plans, outcomes, suite registry.
// One integer (VERIF_SEED) decides everything: every choice is drawn from a counter-based
// sub-stream keyed by (seed, suite, run index, entity), never from global PRNG state.
#pragma once
#include <cstdint>
#include <cstring>
#include <cmath>
#include <functional>
#include <map>
#include <set>
#include <sstream>
#include <string>
#include <vector>

namespace sim {

typedef uint64_t u64;
typedef int64_t i64;

inline u64 mix64(u64 x)
{
  x += 0x9e3779b97f4a7c15ULL;
  x = (x ^ (x >> 30)) * 0xbf58476d1ce4e5b9ULL;
  x = (x ^ (x >> 27)) * 0x94d049bb133111ebULL;
  return x ^ (x >> 31);
}
inline u64 hmix(u64 a, u64 b) { return mix64(a ^ mix64(b + 0x632be59bd9b4e019ULL)); }
inline u64 hstr(const std::string & s, u64 h = 0xcbf29ce484222325ULL)
{
  for (unsigned char c : s) { h ^= c; h *= 0x100000001b3ULL; }
  return mix64(h);
}
inline u64 dbits(double d) { u64 u; std::memcpy(&u, &d, 8); return u; }

/// Sequential generator used ONLY while a plan is being generated (pure function of its key).
struct Rng
{
  u64 key; u64 n = 0;
  explicit Rng(u64 k) : key(k) {}
  u64 next() { return hmix(key, n++); }
  u64 below(u64 m) { return m ? next() % m : 0; }
  i64 range(i64 lo, i64 hi) { return lo + (i64)below((u64)(hi - lo + 1)); } // inclusive
  double unit() { return (double)(next() >> 11) * (1.0 / 9007199254740992.0); }
  bool chance(double p) { return unit() < p; }
  template <class T> const T & pick(const std::vector<T> & v) { return v[below(v.size())]; }
};

/// Running hash of what a run observed (the "event log" digest compared across replays).
struct Trace
{
  u64 h = 0x1234567;
  void add(u64 v) { h = hmix(h, v); }
  void addd(double d) { add(dbits(d)); }
  void adds(const std::string & s) { add(hstr(s)); }
};

struct Op
{
  std::string k;               // kind
  std::vector<i64> a;          // integer arguments (faults attached to the op live here too)
  std::vector<std::string> s;  // string arguments
  i64 arg(size_t i, i64 dflt = 0) const { return i < a.size() ? a[i] : dflt; }
  const std::string & str(size_t i) const { static const std::string e; return i < s.size() ? s[i] : e; }
};

struct Plan
{
  std::string suite;
  u64 seed = 0;
  u64 idx = 0;
  std::map<std::string, std::string> hdr;
  std::vector<Op> ops;
  // plans executed first in the same process (their verdicts are ignored): only needed when a
  // violation depends on process-wide state left behind by earlier, unrelated runs
  std::vector<Plan> pre;
  std::string text() const;
  static bool parse(const std::string & text, Plan & out, std::string & err);
  u64 hash() const { return hstr(text()); }
  i64 hint(const std::string & k, i64 d = 0) const
  {
    auto it = hdr.find(k);
    return it == hdr.end() ? d : std::stoll(it->second);
  }
};

extern long g_guarded_table_calls; // sim/guard_tables.cc: calls of decay0_divdif served with re-homed tables (ASan flavour)
struct Outcome
{
  std::string verdict = "ok"; // ok | violation | crash | hang
  std::string prop;           // property the violation belongs to
  std::string cls;            // violation class (shrinking keeps this fixed)
  std::string sig;            // stable minimal identifying facts (matched against known findings)
  std::string detail;         // human-readable
  u64 trace = 0;
  std::map<std::string, i64> ctr; // counters: faults fired, probes, steps (summed over runs)
  std::map<std::string, i64> mx;  // maxima over runs
  std::vector<std::string> cover; // coverage tuples hit by this run (distinct over the batch)
  bool violated() const { return verdict != "ok"; }
  std::string line() const;
  static bool parse_line(const std::string & l, Outcome & o);
  void fail(const std::string & prop_, const std::string & cls_, const std::string & sig_, const std::string & detail_)
  {
    if (verdict != "ok") return; // first violation wins
    verdict = "violation"; prop = prop_; cls = cls_; sig = sig_; detail = detail_;
  }
};

struct RunCtx
{
  std::string prop;   // property under check (only its oracles report)
  std::string tier;   // quick | thorough
  bool verbose = false;
  bool fresh = false; // every run of this batch executes in a freshly forked process (first-use behaviour is reproducible)
};

struct Suite
{
  std::string name;
  std::string what;
  // pure function of (seed, idx, tier): the plan for run #idx
  std::function<Plan(u64 seed, u64 idx, const RunCtx &)> gen;
  // execute a plan in this process
  std::function<Outcome(const Plan &, const RunCtx &)> run;
  // per-op simplification candidates (beyond dropping ops); may be empty
  std::function<std::vector<Op>(const Op &)> simplify;
  // ops that must never be dropped by the shrinker (e.g. header-like ops); may be empty
  std::function<bool(const Op &)> pinned;
};

void register_suite(const Suite & s);
const Suite * find_suite(const std::string & name);
std::vector<std::string> suite_names();

struct SuiteRegistrar { explicit SuiteRegistrar(const Suite & s) { register_suite(s); } };

// where things live (overridable so that a private copy of the repository / a snapshot of /verif can be used):
//   BXSIM_REPO (default /repo), BXSIM_VERIF (default /verif), BXSIM_BUILD (default $BXSIM_VERIF/build)
std::string repo_dir();
std::string verif_dir();
std::string build_dir();

// string escaping for the line/plan formats
std::string esc(const std::string & s);
std::string unesc(const std::string & s);
std::string json_str(const std::string & s);

} // namespace sim
