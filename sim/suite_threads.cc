// Thread suite (property C12): 2-3 simulated clients on real threads, each owning its generator,
// deviate streams and events, parked and released one at a time by the seeded scheduler.
//
//   op t_cfg    task cat level mode emin_keV emax_keV mdl ; nuclide
//               cat 3 = a bxdecay0::dbd_gA instance used directly (level = process 0/1, mode = 1 rejection / 2 inverse transform)
//   op t_init   task stream
//   op t_shoot  task stream count
//   op t_reinit task stream
//   op sw       kind nth from to          (scheduling decision: at the nth point of that kind executed by `from`, run `to`)
//   op inj      task qidx                 (buggify: quadrature #qidx of that task additionally reports GSL_ETOL)
//   op first    task
//   op ga_put   nuc proc dataset          (gA dataset on the simulated disk)
//   op rfault   task read_idx             (I/O fault: EIO from the read_idx-th read issued by that task, e.g. inside its gA initialise)
//
// Oracles over the recorded history: (1) GSL never invokes the application's base handler while a
// task runs (= no schedule-dependent abort); (2) each task's results are bit-identical to running
// the same task alone; (3) no data race: vector-clock happens-before over handler accesses and
// mutex acquire/release (model level), ThreadSanitizer over memory (tsan flavour); (4) every task
// finishes: no deadlock, bounded steps.
#include "configs.h"
#include "sched.h"
#include "simfs.h"
#include "simrandom.h"
#include <bxdecay0/dbd_gA.h>
#include <fstream>
#include <memory>
#include <sys/prctl.h>
#include <sys/stat.h>
#include <sys/wait.h>
#include <csignal>
#include <unistd.h>

namespace sim {

std::string ga_dataset(const std::string & name);
std::string ga_file(const std::string & name, const std::string & file);
std::string ga_root();
std::string san_dir();

namespace {

const char * GA_NUC[4] = {"Se82", "Mo100", "Cd116", "Nd150"};
const char * GA_PROC[2] = {"g0", "g2"};
const char * GA_SETS[3] = {"small", "medium", "steep"};

struct TaskLog
{
  std::vector<u64> items; // hashes of everything the task observed, in order
  i64 shots = 0, inits = 0, failures = 0;
  std::string first_error;
};

GenCfg cfg_of(const Op & op)
{
  GenCfg c;
  c.cat = (int)op.arg(1, 2); c.level = (int)op.arg(2); c.mode = (int)op.arg(3);
  c.emin_keV = op.arg(4, -1); c.emax_keV = op.arg(5, -1); c.mdl = (int)(op.arg(6) % 100); c.debug = op.arg(6) >= 100;
  c.nuc = op.str(0);
  return c;
}

/// the body of one simulated client: executes its ops in plan order; everything it touches is its own
void task_body(const Plan & plan, int task, TaskLog & log)
{
  std::unique_ptr<bxdecay0::decay0_generator> gen;
  std::unique_ptr<bxdecay0::dbd_gA> ga; // cat 3: the gA generator class used directly
  GenCfg cfg; bool has_cfg = false;
  auto ga_setup = [&]() {
    ga->set_nuclide(cfg.nuc);
    ga->set_process(cfg.level & 1 ? bxdecay0::dbd_gA::PROCESS_G2 : bxdecay0::dbd_gA::PROCESS_G0);
    ga->set_shooting(cfg.mode == 1 ? bxdecay0::dbd_gA::SHOOTING_REJECTION : bxdecay0::dbd_gA::SHOOTING_INVERSE_TRANSFORM_METHOD);
  };
  for (const Op & op : plan.ops) {
    if (op.k.rfind("t_", 0) != 0 || op.arg(0) != task) continue;
    sched_point(SP_OP, 0);
    try {
      if (op.arg(1, 2) == 3 && op.k == "t_cfg") {
        gen.reset(); ga.reset(); ga.reset(new bxdecay0::dbd_gA);
        cfg = cfg_of(op); has_cfg = false;
        ga_setup(); has_cfg = true;
        log.items.push_back(hstr("cfg" + cfg.key()));
      } else if (ga && op.k != "t_cfg") {
        if (op.k == "t_init") {
          if (!has_cfg || ga->is_initialized()) continue;
          ga->initialize();
          log.inits++;
          log.items.push_back(hstr("ga-init"));
        } else if (op.k == "t_reinit") {
          if (!ga->is_initialized()) continue;
          ga->reset(); ga_setup(); ga->initialize();
          log.inits++;
          log.items.push_back(hstr("ga-reinit"));
        } else if (op.k == "t_shoot") {
          if (!ga->is_initialized()) continue;
          SimRandom r(hmix(hstr("thr-shot"), hmix((u64)task, (u64)op.arg(1))));
          r.yield_every = 1;
          bxdecay0::event ev;
          for (i64 i = 0; i < op.arg(2, 1); i++) {
            r.begin_op(3000000);
            ga->shoot(r, ev);
            log.shots++;
            log.items.push_back(EventRec::of(ev).hash());
          }
        }
      } else if (op.k == "t_cfg") {
        ga.reset();
        gen.reset(); gen.reset(new bxdecay0::decay0_generator);
        cfg = cfg_of(op); has_cfg = false;
        apply_cfg(*gen, cfg); has_cfg = true;
        log.items.push_back(hstr("cfg" + cfg.key()));
      } else if (op.k == "t_init") {
        if (!gen || !has_cfg || gen->is_initialized()) continue;
        SimRandom r(hmix(hstr("thr-init"), hmix((u64)task, (u64)op.arg(1))));
        r.yield_every = 1; r.begin_op(30000000);
        gen->initialize(r);
        log.inits++;
        log.items.push_back(hmix(hstr("init"), dbits(gen->get_to_all_events())));
      } else if (op.k == "t_reinit") {
        if (!gen || !gen->is_initialized()) continue;
        gen->reset();
        apply_cfg(*gen, cfg);
        SimRandom r(hmix(hstr("thr-init"), hmix((u64)task, (u64)op.arg(1))));
        r.yield_every = 1; r.begin_op(30000000);
        gen->initialize(r);
        log.inits++;
        log.items.push_back(hmix(hstr("reinit"), dbits(gen->get_to_all_events())));
      } else if (op.k == "t_shoot") {
        if (!gen || !gen->is_initialized()) continue;
        SimRandom r(hmix(hstr("thr-shot"), hmix((u64)task, (u64)op.arg(1))));
        r.yield_every = 1;
        bxdecay0::event ev;
        for (i64 i = 0; i < op.arg(2, 1); i++) {
          r.begin_op(3000000);
          gen->shoot(r, ev);
          log.shots++;
          log.items.push_back(EventRec::of(ev).hash());
        }
        log.items.push_back((u64)gen->get_event_count());
      }
    } catch (std::exception & e) {
      log.failures++;
      if (log.first_error.empty()) log.first_error = e.what();
      log.items.push_back(hstr("threw")); // not the message: it may carry a per-process scratch path
    }
  }
}

/// Pristine-process runs only: the reference "what this task produces when run alone" is computed in a child forked
/// BEFORE any task has run, i.e. in a process whose library statics are as untouched as they are for the concurrent
/// phase. (The same-process solo phase below runs after the concurrent one: a value frozen at first use by whichever
/// task got there first is frozen for it too.) Returns false when the child did not deliver (it crashed or overflowed).
bool solo_in_pristine_child(const Plan & plan, int t, int ntasks, const std::set<std::pair<int, i64>> & inject, i64 max_steps, TaskLog & log)
{
  int pfd[2];
  if (pipe(pfd) != 0) return false;
  fflush(stdout); fflush(stderr);
  pid_t pid = fork();
  if (pid < 0) { close(pfd[0]); close(pfd[1]); return false; }
  if (pid == 0) {
    close(pfd[0]);
    prctl(PR_SET_PDEATHSIG, SIGKILL);
    TaskLog l;
    std::vector<std::function<void()>> one;
    for (int k = 0; k < ntasks; k++) {
      if (k == t) one.push_back([&plan, t, &l]() { task_body(plan, t, l); });
      else one.push_back([]() {});
    }
    fs::begin_op();
    sched::Result sr = sched::run(one, {}, t, inject, max_steps);
    if (sr.deadlock || sr.stalled || sr.step_overflow) _exit(3);
    std::vector<u64> buf; buf.push_back((u64)l.items.size());
    for (u64 v : l.items) buf.push_back(v);
    buf.push_back((u64)l.failures);
    const char * b = (const char *)buf.data(); size_t n = buf.size() * sizeof(u64), off = 0;
    while (off < n) { ssize_t w = ::write(pfd[1], b + off, n - off); if (w <= 0) _exit(4); off += (size_t)w; }
    _exit(0);
  }
  close(pfd[1]);
  std::string in; char b[4096]; ssize_t n;
  while ((n = ::read(pfd[0], b, sizeof b)) > 0 || (n < 0 && errno == EINTR)) if (n > 0) in.append(b, (size_t)n);
  close(pfd[0]);
  int st = 0; while (waitpid(pid, &st, 0) < 0 && errno == EINTR) {}
  if (in.size() < 2 * sizeof(u64)) return false;
  const u64 * w = (const u64 *)in.data(); size_t nw = in.size() / sizeof(u64);
  if (nw != w[0] + 2) return false;
  log.items.assign(w + 1, w + 1 + w[0]);
  log.failures = (i64)w[nw - 1];
  return true;
}

u64 log_hash(const TaskLog & l) { u64 h = 7; for (u64 v : l.items) h = hmix(h, v); return h; }

Outcome run_threads(const Plan & plan, const RunCtx & ctx)
{
  Outcome out; Trace tr;
  const bool check = ctx.prop == "C12";
  int ntasks = (int)plan.hint("ntasks", 2);
  if (ntasks < 1) ntasks = 1; if (ntasks > 4) ntasks = 4;
  fs::reset();
  std::vector<sched::Decision> decisions;
  std::set<std::pair<int, i64>> inject;
  int first = 0;
  for (const Op & op : plan.ops) {
    if (op.k == "sw") decisions.push_back({(int)op.arg(0), op.arg(1), (int)(op.arg(2) % ntasks), (int)(op.arg(3) % ntasks)});
    else if (op.k == "inj") inject.insert({(int)(op.arg(0) % ntasks), op.arg(1)});
    else if (op.k == "first") first = (int)(op.arg(0) % ntasks);
    else if (op.k == "rfault") fs::faults().task_eio_at_read[(int)(op.arg(0) % ntasks)] = op.arg(1);
    else if (op.k == "ga_put") {
      std::string p = ga_root() + "/data/dbd_gA/v1.0/" + GA_NUC[op.arg(0) & 3] + "/" + GA_PROC[op.arg(1) & 1] + "/tab_ocdf.data";
      fs::put(p, ga_dataset(GA_SETS[(size_t)(op.arg(2) % 3)]));
      // the tabulated p.d.f. of the same dataset (read by the rejection method of a directly used dbd_gA instance)
      std::string pp = p.substr(0, p.size() - std::string("tab_ocdf.data").size()) + "tab_pdf.data";
      fs::put(pp, ga_file(GA_SETS[(size_t)(op.arg(2) % 3)], "tab_pdf.data"));
    }
  }
  sched::set_io_points(plan.hint("io_points", 0) != 0);
  const i64 MAX_STEPS = 20000000;
  // ---- pristine-process runs: solo references from children forked before anything ran ----------------------
  // (not with a per-task read fault: which of a task's reads is the k-th depends on who loaded the shared catalogue lists)
  std::vector<TaskLog> psolo((size_t)ntasks); std::vector<char> psolo_ok((size_t)ntasks, 0);
  if (plan.hint("io_points", 0) != 0 && fs::faults().task_eio_at_read.empty()) {
    sched::set_io_points(false);
    for (int t = 0; t < ntasks; t++) {
      psolo_ok[(size_t)t] = solo_in_pristine_child(plan, t, ntasks, inject, MAX_STEPS, psolo[(size_t)t]) ? 1 : 0;
      out.ctr[psolo_ok[(size_t)t] ? "pristine_solo_references" : "diag_pristine_solo_reference_unavailable"]++;
    }
    sched::set_io_points(true);
  }
  // ---- concurrent phase (first: so that first-use initialisation of library statics happens under threads) ----
  std::vector<TaskLog> conc((size_t)ntasks);
  std::vector<std::function<void()>> bodies;
  for (int t = 0; t < ntasks; t++) bodies.push_back([&plan, t, &conc]() { task_body(plan, t, conc[(size_t)t]); });
  fs::begin_op();
  i64 eio0 = fs::stats().read_eio;
  std::string tsan_cls, tsan_sig, tsan_detail;
#if defined(SIM_FLAVOUR_tsan)
  // ThreadSanitizer appends its reports to <san_dir>/log.<pid> as it finds them (halt_on_error=0)
  std::string tsan_log = san_dir() + "/log." + std::to_string((long)getpid());
  auto file_size = [](const std::string & p) -> long { struct stat st; return stat(p.c_str(), &st) == 0 ? (long)st.st_size : 0; };
  long tsan0 = file_size(tsan_log);
#endif
  sched::Result cr = sched::run(bodies, decisions, first, inject, MAX_STEPS);
#if defined(SIM_FLAVOUR_tsan)
  long tsan1 = file_size(tsan_log);
  if (tsan1 > tsan0) {
    std::ifstream f(tsan_log.c_str(), std::ios::binary); f.seekg(tsan0);
    std::string txt((std::istreambuf_iterator<char>(f)), std::istreambuf_iterator<char>());
    out.ctr["tsan_reports"]++;
    // identify the race by the SUT location: the global it names, else the first /repo frame
    std::string where;
    size_t g = txt.find("Location is global '");
    if (g != std::string::npos) { size_t e = txt.find('\'', g + 20); where = txt.substr(g + 20, e == std::string::npos ? 80 : e - (g + 20)); }
    if (where.empty()) { size_t r = txt.find(repo_dir() + "/"); if (r != std::string::npos) { size_t e = txt.find_first_of(" )\n", r); where = txt.substr(r, e - r); size_t c2 = where.find(':'); if (c2 != std::string::npos) { size_t c3 = where.find(':', c2 + 1); if (c3 != std::string::npos) where = where.substr(0, c3); } } }
    bool in_sut = txt.find(repo_dir() + "/") != std::string::npos;
    size_t k = txt.find("WARNING: ThreadSanitizer: ");
    std::string kind = k == std::string::npos ? "report" : txt.substr(k + 26, txt.find_first_of("(\n", k + 26) - (k + 26));
    while (!kind.empty() && kind.back() == ' ') kind.pop_back();
    // (reported after the model-level oracles below, so that the class of a violating run does not depend
    // on ThreadSanitizer's once-per-process report de-duplication)
    if (in_sut) { tsan_cls = "tsan-" + kind; tsan_sig = "tsan " + kind + " @ " + where; tsan_detail = "ThreadSanitizer: " + kind + " at " + where + " (report in " + tsan_log + ")"; }
    else out.ctr["diag_tsan_report_outside_sut"]++;
  }
#endif
  out.ctr["fault_read_eio_in_task_fired"] += fs::stats().read_eio - eio0;
  out.ctr["sched_steps"] += cr.steps;
  out.ctr["sched_switches"] += cr.switches;
  out.ctr["decisions_fired"] += cr.decisions_fired;
  out.ctr["quadratures"] += cr.qng_calls;
  out.ctr["fault_real_tolerance_miss"] += cr.real_misses;
  out.ctr["fault_injected_tolerance_miss_fired"] += cr.injected_misses;
  out.ctr["mutex_acquires"] += cr.mutex_acquires;
  out.ctr["probe_task_blocked_on_mutex"] += cr.mutex_blocks;
  out.ctr["diag_handler_leaked"] += cr.handler_leaked ? 1 : 0;
  out.ctr["handler_events"] += cr.handler_events;
  tr.add((u64)cr.steps); tr.add((u64)cr.switches); tr.adds(cr.overlap_sig); tr.add((u64)cr.h0_calls); tr.add((u64)cr.races);
  if (cr.deadlock) {
    out.ctr["process_tainted"] = 1; // parked threads left behind: retire this process
    if (check) out.fail("C12", "deadlock", "deadlock", "every unfinished task is blocked on a mutex held by another blocked task");
    out.trace = tr.h;
    return out;
  }
  if (cr.stalled) { out.verdict = "harness-error"; out.detail = "a mutex is held outside the scheduler's model"; out.ctr["process_tainted"] = 1; return out; }
  // ---- solo phase: every task alone, same streams, same injected misses ------------------------------------
  std::vector<TaskLog> solo((size_t)ntasks);
  i64 solo_h0 = 0;
  for (int t = 0; t < ntasks; t++) {
    std::vector<std::function<void()>> one;
    // keep the task index (streams and injections are keyed by it): run it as task t of a world in which the others are empty
    for (int k = 0; k < ntasks; k++) {
      if (k == t) one.push_back([&plan, t, &solo]() { task_body(plan, t, solo[(size_t)t]); });
      else one.push_back([]() {});
    }
    fs::begin_op();
    sched::Result sr = sched::run(one, {}, t, inject, MAX_STEPS);
    solo_h0 += sr.h0_calls;
    out.ctr["sched_steps"] += sr.steps;
  }
  i64 tot_shots = 0;
  for (int t = 0; t < ntasks; t++) { tr.add(log_hash(conc[(size_t)t])); tr.add(log_hash(solo[(size_t)t])); if (psolo_ok[(size_t)t]) tr.add(log_hash(psolo[(size_t)t])); tot_shots += conc[(size_t)t].shots; out.ctr["task_op_failures"] += conc[(size_t)t].failures; }
  out.ctr["shots"] += tot_shots;
  out.ctr["tasks_run"] += ntasks;
  if (cr.switches > 0) out.ctr["probe_runs_with_preemption"]++;
  // window overlap: another task's handler event between a task's 'o' and its 'r'
  {
    const std::string & s = cr.overlap_sig; bool overlap = false;
    for (size_t i = 0; i + 3 < s.size() && !overlap; i += 2)
      if (s[i] == 'o' && s[i + 3] != s[i + 1]) overlap = true;
    if (overlap) out.ctr["probe_overlapping_handler_windows"]++;
  }
  if (check) {
    // (1) no schedule-dependent abort
    if (cr.h0_calls > 0 && solo_h0 == 0)
      out.fail("C12", "schedule-dependent-abort", "schedule-dependent-abort", cr.first_h0 + " [handler events: " + cr.overlap_sig + "]");
    // (3) model-level race on the process-wide handler
    if (cr.races > 0) out.fail("C12", "data-race-on-gsl-handler", "data-race-on-gsl-handler", cr.first_race + " [handler events: " + cr.overlap_sig + "]");
    // (2) same results as alone
    for (int t = 0; t < ntasks; t++) {
      if (conc[(size_t)t].items != solo[(size_t)t].items) {
        size_t k = 0; while (k < conc[(size_t)t].items.size() && k < solo[(size_t)t].items.size() && conc[(size_t)t].items[k] == solo[(size_t)t].items[k]) k++;
        out.fail("C12", "differs-from-solo-run", "differs-from-solo-run",
                 "task " + std::to_string(t) + " observed different results when run concurrently than when run alone (first difference at item #" + std::to_string(k)
                     + "; concurrent error: '" + conc[(size_t)t].first_error + "', solo error: '" + solo[(size_t)t].first_error + "')");
        break;
      }
    }
    // (2b) same results as alone in a pristine process
    for (int t = 0; t < ntasks; t++) {
      if (psolo_ok[(size_t)t] && conc[(size_t)t].items != psolo[(size_t)t].items) {
        const auto & a = conc[(size_t)t].items; const auto & b2 = psolo[(size_t)t].items;
        size_t k = 0; while (k < a.size() && k < b2.size() && a[k] == b2[k]) k++;
        out.fail("C12", "differs-from-solo-run", "differs-from-pristine-solo-run",
                 "task " + std::to_string(t) + " observed different results when run concurrently than when run alone in a pristine process (first difference at item #"
                     + std::to_string(k) + " of " + std::to_string(a.size()) + "/" + std::to_string(b2.size()) + "; concurrent error: '" + conc[(size_t)t].first_error + "')");
        break;
      }
    }
    // (3b) memory-level races seen by ThreadSanitizer
    if (!tsan_cls.empty()) out.fail("C12", tsan_cls, tsan_sig, tsan_detail);
    // (4) bounded completion
    if (cr.step_overflow) out.fail("C12", "no-progress", "no-progress", "a task exceeded the step budget of " + std::to_string(MAX_STEPS) + " schedule points");
  }
  std::string sigc = cr.overlap_sig.substr(0, 24);
  out.cover.push_back("overlap:" + (sigc.empty() ? std::string("none") : sigc));
  out.trace = tr.h;
  return out;
}

// ---- plan generator -------------------------------------------------------------------------------------
GenCfg pick_thread_cfg(Rng & r, i64 & est_quads)
{
  GenCfg c; est_quads = 0;
  u64 d = r.below(100);
  const auto & quad = dbd_quad(); const auto & miss = dbd_quad_missing(); const auto & cheap = dbd_cheap();
  if (d < 25 && !miss.empty()) { const DbdEntry & e = r.pick(miss); c.cat = 1; c.nuc = e.nuc; c.level = e.level; c.mode = e.mode; est_quads = e.qng_calls; }
  else if (d < 55 && !quad.empty()) { const DbdEntry & e = r.pick(quad); c.cat = 1; c.nuc = e.nuc; c.level = e.level; c.mode = e.mode; est_quads = e.qng_calls; }
  else if (d < 70 && !cheap.empty()) { const DbdEntry & e = r.pick(cheap); c.cat = 1; c.nuc = e.nuc; c.level = e.level; c.mode = e.mode; }
  else if (d < 78) { c.cat = 1; c.nuc = GA_NUC[r.below(4)]; c.level = 0; c.mode = (int)r.range(21, 22); }
  else if (d < 82) { c.cat = 3; c.nuc = GA_NUC[r.below(4)]; c.level = (int)r.below(2); c.mode = r.chance(0.7) ? 1 : 2; }
  else { c.cat = 2; c.nuc = r.pick(bkg_names()); }
  if (r.chance(0.1)) c.mdl = (int)r.range(1, mdl_presets());
  if (c.cat != 3 && r.chance(0.06)) c.debug = true; // a client with its traces on: the diagnostic stream is shared by all clients
  return c;
}

Plan gen_threads(u64 seed, u64 idx, const RunCtx & ctx)
{
  Plan p; p.suite = "threads"; p.seed = seed; p.idx = idx;
  Rng r(hmix(hmix(seed, hstr("threads")), idx));
  int nt = r.chance(0.75) ? 2 : 3;
  p.hdr["ntasks"] = std::to_string(nt);
  p.hdr["io_points"] = ctx.fresh ? "1" : "0";
  std::vector<i64> quads((size_t)nt, 0);
  bool any_ga = false;
  // twins: with probability 0.4 every client runs the SAME configuration - the only way two threads meet
  // in the same per-nuclide code (a function-local static there is invisible to clients of different nuclides)
  bool twins = r.chance(0.4);
  GenCfg twin_cfg; i64 twin_q = 0;
  if (twins) twin_cfg = pick_thread_cfg(r, twin_q);
  // pristine-process runs: gA initialisations (table loaders: the only multi-read, allocation-heavy first-use path) more often
  bool all_ga = ctx.fresh && r.chance(0.25);
  p.hdr["twins"] = twins ? "1" : "0";
  for (int t = 0; t < nt; t++) {
    int rounds = r.chance(0.8) ? 1 : 2;
    for (int k = 0; k < rounds; k++) {
      i64 q = 0;
      GenCfg c = (twins && k == 0) ? twin_cfg : pick_thread_cfg(r, q);
      if (twins && k == 0) q = twin_q;
      if (all_ga) { c = GenCfg(); c.cat = 1; c.nuc = GA_NUC[r.below(4)]; c.level = 0; c.mode = (int)r.range(21, 22); q = 0; }
      quads[(size_t)t] += q;
      if (c.mode >= 21 || c.cat == 3) any_ga = true;
      Op o; o.k = "t_cfg"; o.a = {t, c.cat, c.level, c.mode, c.emin_keV, c.emax_keV, c.mdl + (c.debug ? 100 : 0)}; o.s = {c.nuc};
      p.ops.push_back(o);
      Op in; in.k = "t_init"; in.a = {t, (i64)r.below(1000)}; p.ops.push_back(in);
      Op sh; sh.k = "t_shoot"; sh.a = {t, (i64)r.below(1000), r.range(1, ctx.tier == "thorough" ? 8 : 5)}; p.ops.push_back(sh);
      if (r.chance(0.15)) { Op re; re.k = "t_reinit"; re.a = {t, (i64)r.below(1000)}; p.ops.push_back(re); Op s2 = sh; s2.a[1] = (i64)r.below(1000); p.ops.push_back(s2); }
    }
  }
  if (any_ga) for (int n = 0; n < 4; n++) for (int pr = 0; pr < 2; pr++) if (r.chance(0.8)) { Op o; o.k = "ga_put"; o.a = {n, pr, (i64)r.below(3)}; p.ops.push_back(o); }
  if (any_ga && r.chance(0.4)) { Op o; o.k = "rfault"; o.a = {(i64)r.below((u64)nt), r.range(0, 3)}; p.ops.push_back(o); }
  { Op f; f.k = "first"; f.a = {(i64)r.below((u64)nt)}; p.ops.push_back(f); }
  // buggify: injected tolerance misses on the tasks' own quadrature timelines
  std::vector<std::pair<int, i64>> inj;
  for (int t = 0; t < nt; t++) if (quads[(size_t)t] > 0 && r.chance(0.7)) {
    int k = (int)r.range(1, 3);
    for (int i = 0; i < k; i++) { i64 q = (i64)r.below((u64)quads[(size_t)t]); inj.push_back({t, q}); Op o; o.k = "inj"; o.a = {t, q}; p.ops.push_back(o); }
  }
  // schedules: three strategies
  u64 strat = r.below(11);
  auto other = [&](int t) { return (int)((t + 1 + (int)r.below((u64)(nt - 1))) % nt); };
  if (strat == 10) {
    // dense: many switches spread over each task's whole timeline (fine-grained interleaving of draws and quadratures)
    for (int from = 0; from < nt; from++) {
      i64 span = 60 + quads[(size_t)from] * 8;
      int k = (int)r.range(8, 24);
      for (int i = 0; i < k; i++) { Op o; o.k = "sw"; o.a = {0, 1 + (i64)r.below((u64)span), from, other(from)}; p.ops.push_back(o); }
    }
  } else if (strat < 3) {
    // uniform: a few switches at arbitrary schedule points
    int k = (int)r.range(1, 8);
    for (int i = 0; i < k; i++) {
      int from = (int)r.below((u64)nt);
      i64 span = 40 + quads[(size_t)from] * 8;
      // log-uniform position
      i64 nth = 1 + (i64)(std::exp(r.unit() * std::log((double)span)));
      Op o; o.k = "sw"; o.a = {0, nth, from, other(from)}; p.ops.push_back(o);
    }
  } else if (strat < 5) {
    // PCT-style: d priority-change points at uniformly random steps
    int dch = (int)r.range(1, 3);
    for (int i = 0; i < dch; i++) {
      int from = (int)r.below((u64)nt);
      i64 span = 40 + quads[(size_t)from] * 8;
      Op o; o.k = "sw"; o.a = {0, r.range(1, span), from, other(from)}; p.ops.push_back(o);
    }
  } else {
    // window-biased: preempt right after a save/disable, come back before/after the matching restore,
    // and put the other task's (missing) quadrature in between
    int a = (int)r.below((u64)nt), b = other(a);
    i64 qa = std::max<i64>(1, quads[(size_t)a]), qb = std::max<i64>(1, quads[(size_t)b]);
    i64 wa = r.range(1, qa);
    Op o1; o1.k = "sw"; o1.a = {SP_GSL_OFF_POST, wa, a, b}; p.ops.push_back(o1);
    // b runs up to one of its quadratures (preferably an injected miss), then yields back inside its own window
    i64 qn = r.range(1, qb);
    for (auto & ij : inj) if (ij.first == b && r.chance(0.7)) { qn = ij.second + 1; break; }
    Op o2; o2.k = "sw"; o2.a = {r.chance(0.7) ? SP_QNG_PRE : SP_GSL_OFF_POST, qn, b, a}; p.ops.push_back(o2);
    // a restores its saved handler, then b continues into its quadrature
    Op o3; o3.k = "sw"; o3.a = {r.chance(0.7) ? SP_GSL_SET_POST : SP_QNG_POST, wa + (r.chance(0.7) ? 0 : 1), a, b}; p.ops.push_back(o3);
    if (r.chance(0.4)) { Op o4; o4.k = "sw"; o4.a = {0, r.range(1, 200), b, a}; p.ops.push_back(o4); }
  }
  // pristine-process runs: allocations are schedule points too - preempt in the middle of straight-line code
  if (ctx.fresh && r.chance(0.7)) {
    int k = (int)r.range(1, 6);
    for (int i = 0; i < k; i++) {
      int a = (int)r.below((u64)nt);
      i64 nth = 1 + (i64)std::exp(r.unit() * std::log(6000.0)); // log-uniform over the first few thousand allocations
      Op o; o.k = "sw"; o.a = {SP_ALLOC, nth, a, other(a)}; p.ops.push_back(o);
      if (r.chance(0.6)) { Op o2; o2.k = "sw"; o2.a = {SP_ALLOC, 1 + (i64)r.below(400), other(a), a}; p.ops.push_back(o2); }
    }
  }
  // first-use window: preempt a task inside one of its first reads (lazily loaded catalogue lists, gA tables)
  if (ctx.fresh && r.chance(0.6)) {
    int a = (int)r.below((u64)nt);
    Op o; o.k = "sw"; o.a = {SP_IO, r.range(1, 8), a, other(a)}; p.ops.push_back(o);
    if (r.chance(0.5)) { Op o2; o2.k = "sw"; o2.a = {0, r.range(1, 60), other(a), a}; p.ops.push_back(o2); }
  }
  return p;
}

/// Systematic companion: run index enumerates the configuration space (69 background names, then every
/// catalogued DBD triple with < 1500 quadratures); two clients run the SAME configuration with a dense
/// schedule, so that per-nuclide code is executed by two threads (statics, caches) for every nuclide.
Plan gen_threads_twins(u64 seed, u64 idx, const RunCtx &)
{
  Plan p; p.suite = "threads-twins"; p.seed = seed; p.idx = idx;
  Rng r(hmix(hmix(seed, hstr("threads-twins")), idx));
  const auto & names = bkg_names();
  static std::vector<DbdEntry> dbd;
  if (dbd.empty()) for (auto & e : dbd_catalogue()) if (e.qng_calls < 1500) dbd.push_back(e);
  u64 total = names.size() + dbd.size();
  u64 pos = (idx + hmix(seed, 99) % total) % total;
  GenCfg c; i64 quads = 0;
  if (pos < names.size()) { c.cat = 2; c.nuc = names[pos]; }
  else { const DbdEntry & e = dbd[pos - names.size()]; c.cat = 1; c.nuc = e.nuc; c.level = e.level; c.mode = e.mode; quads = e.qng_calls; }
  p.hdr["ntasks"] = "2"; p.hdr["twins"] = "1";
  for (int t = 0; t < 2; t++) {
    Op o; o.k = "t_cfg"; o.a = {t, c.cat, c.level, c.mode, -1, -1, 0}; o.s = {c.nuc}; p.ops.push_back(o);
    Op in; in.k = "t_init"; in.a = {t, (i64)r.below(1000)}; p.ops.push_back(in);
    Op sh; sh.k = "t_shoot"; sh.a = {t, (i64)r.below(1000), 4}; p.ops.push_back(sh);
  }
  { Op f; f.k = "first"; f.a = {(i64)r.below(2)}; p.ops.push_back(f); }
  for (int from = 0; from < 2; from++) {
    i64 span = 80 + quads * 8;
    for (int i = 0; i < 12; i++) { Op o; o.k = "sw"; o.a = {0, 1 + (i64)r.below((u64)span), from, 1 - from}; p.ops.push_back(o); }
  }
  return p;
}

/// Systematic companion for pristine-process batches: two clients run the same DBD MODE for two DIFFERENT nuclides
/// (run index enumerates the modes; the pair is drawn). A per-mode sampler is the only code two such clients share
/// beyond the common helpers, and a value it freezes at first use belongs to whichever client got there first.
Plan gen_threads_siblings(u64 seed, u64 idx, const RunCtx & ctx)
{
  Plan p; p.suite = "threads-siblings"; p.seed = seed; p.idx = idx;
  Rng r(hmix(hmix(seed, hstr("threads-siblings")), idx));
  static std::map<int, std::vector<DbdEntry>> by_mode;
  static std::vector<int> modes;
  if (modes.empty()) {
    for (auto & e : dbd_catalogue()) if (e.qng_calls < 1500) by_mode[e.mode].push_back(e);
    for (auto & m : by_mode) { std::set<std::string> nucs; for (auto & e : m.second) nucs.insert(e.nuc); if (nucs.size() >= 2) modes.push_back(m.first); }
  }
  p.hdr["ntasks"] = "2"; p.hdr["twins"] = "0";
  p.hdr["io_points"] = ctx.fresh ? "1" : "0";
  int mode = modes[(size_t)((idx + hmix(seed, 77) % modes.size()) % modes.size())];
  const auto & v = by_mode[mode];
  const DbdEntry & a = r.pick(v);
  const DbdEntry * b = &r.pick(v);
  for (int i = 0; i < 50 && b->nuc == a.nuc; i++) b = &r.pick(v);
  const DbdEntry * es[2] = {&a, b};
  i64 quads[2] = {a.qng_calls, b->qng_calls};
  for (int t = 0; t < 2; t++) {
    Op o; o.k = "t_cfg"; o.a = {t, 1, es[t]->level, es[t]->mode, -1, -1, 0}; o.s = {es[t]->nuc}; p.ops.push_back(o);
    Op in; in.k = "t_init"; in.a = {t, (i64)r.below(1000)}; p.ops.push_back(in);
    Op sh; sh.k = "t_shoot"; sh.a = {t, (i64)r.below(1000), 4}; p.ops.push_back(sh);
  }
  { Op f; f.k = "first"; f.a = {(i64)r.below(2)}; p.ops.push_back(f); }
  if (r.chance(0.7)) for (int from = 0; from < 2; from++) {
    i64 span = 80 + quads[from] * 8;
    int k = (int)r.range(1, 10);
    for (int i = 0; i < k; i++) { Op o; o.k = "sw"; o.a = {0, 1 + (i64)r.below((u64)span), from, 1 - from}; p.ops.push_back(o); }
  }
  return p;
}

std::vector<Op> simplify_threads(const Op & op)
{
  std::vector<Op> v;
  if (op.k == "t_shoot" && op.arg(2) > 1) { Op c = op; c.a[2] = 1; v.push_back(c); }
  if (op.k == "t_cfg" && op.arg(6) != 0) { Op c = op; c.a[6] = 0; v.push_back(c); }
  if (op.k == "sw" && op.arg(1) > 1) { Op c = op; c.a[1] = op.arg(1) / 2; v.push_back(c); }
  return v;
}

SuiteRegistrar reg_threads({"threads", "2-3 clients on real threads under the seeded scheduler: handler-swap windows, mutexes, statics (C12)", gen_threads, run_threads,
                            simplify_threads, nullptr});

SuiteRegistrar reg_threads_twins({"threads-twins", "two clients running the same configuration, enumerated over all nuclides and DBD triples (C12)", gen_threads_twins,
                                  run_threads, simplify_threads, nullptr});

SuiteRegistrar reg_threads_siblings({"threads-siblings", "two clients running the same DBD mode for two different nuclides, enumerated over the modes (C12, pristine-process batches)",
                                     gen_threads_siblings, run_threads, simplify_threads, nullptr});

} // namespace
} // namespace sim
