// Process-level environment of the simulated system: where the SUT looks for gA datasets
// (an environment variable the code already reads), and the committed valid datasets that the
// repository's own writer (mkocdfdata.py, see tools/mkga.py) produced.
#include "core.h"
#include "simfs.h"
#include <cstdlib>
#include <fstream>
#include <sstream>

namespace sim {

std::string data_dir()
{
  const char * e = getenv("BXSIM_DATA");
  return e ? std::string(e) : verif_dir() + "/data";
}

std::string ga_root() { return fs::root() + "/ga"; }

std::string ga_file(const std::string & name, const std::string & file)
{
  static std::map<std::string, std::string> cache;
  std::string key = name + "/" + file;
  auto it = cache.find(key);
  if (it != cache.end()) return it->second;
  std::ifstream f((data_dir() + "/ga/" + key).c_str(), std::ios::binary);
  std::ostringstream o; o << f.rdbuf();
  return cache[key] = o.str();
}

std::string ga_dataset(const std::string & name) { return ga_file(name, "tab_ocdf.data"); }

void suite_process_init()
{
  // constant for the life of the process: dbd_gA::env_data_base_dir() keeps the last value it saw
  setenv("BXDECAY0_DBD_GA_DATA_DIR", ga_root().c_str(), 1);
}

} // namespace sim
