// Process-level environment of the simulated system: where the SUT looks for gA datasets
// (an environment variable the code already reads), and the committed valid datasets that the
// repository's own writer (mkocdfdata.py, see tools/mkga.py) produced.
#include "core.h"
#include "simfs.h"
#include "simrandom.h"
#include <bxdecay0/bb_utils.h>
#include <bxdecay0/dbd_gA.h>
#include <bxdecay0/decay0_generator.h>
#include <bxdecay0/event_reader.h>
#include <bxdecay0/mdl_event_op.h>
#include <memory>
#include <cstdlib>
#include <fstream>
#include <sstream>

namespace sim {

std::string data_dir()
{
  const char * e = getenv("BXSIM_DATA");
  return e ? std::string(e) : verif_dir() + "/data";
}

std::string ga_root() { return fs::root() + "/ga"; }

std::string ga_file(const std::string & name, const std::string & file)
{
  static std::map<std::string, std::string> cache;
  std::string key = name + "/" + file;
  auto it = cache.find(key);
  if (it != cache.end()) return it->second;
  std::ifstream f((data_dir() + "/ga/" + key).c_str(), std::ios::binary);
  std::ostringstream o; o << f.rdbuf();
  return cache[key] = o.str();
}

std::string ga_dataset(const std::string & name) { return ga_file(name, "tab_ocdf.data"); }

/// Exercise every lazily initialised piece of the library once, so that what a run observes (in particular
/// WHERE the k-th allocation of an operation falls, for injected allocation failures) does not depend on
/// which plans this process happened to execute before. Not done for fresh-process batches (C12), whose
/// point is the first use itself.
static void warm_up()
{
  try {
    (void)bxdecay0::dbd_modes(); (void)bxdecay0::dbd_isotopes(); (void)bxdecay0::background_isotopes();
    (void)bxdecay0::dbd_supports_esum_range(bxdecay0::DBDMODE_4); (void)bxdecay0::dbd_mode_from_label("2nubb");
    (void)bxdecay0::dbd_gA::is_nuclide_supported("Se82");
    struct Cfg { int cat; const char * nuc; int level; int mode; };
    const Cfg cfgs[] = {{2, "Co60", 0, 0}, {2, "Bi214+Po214", 0, 0}, {2, "Y90", 0, 0}, {1, "Mo100", 0, 1}, {1, "Mo100", 1, 7}, {1, "Sn122", 0, 4}, {1, "Zr96", 0, 20}, {1, "Cd106", 0, 11}};
    for (const Cfg & c : cfgs) {
      bxdecay0::decay0_generator g;
      g.set_decay_category(c.cat == 1 ? bxdecay0::decay0_generator::DECAY_CATEGORY_DBD : bxdecay0::decay0_generator::DECAY_CATEGORY_BACKGROUND);
      g.set_decay_isotope(c.nuc);
      if (c.cat == 1) { g.set_decay_dbd_level(c.level); g.set_decay_dbd_mode(static_cast<bxdecay0::dbd_mode_type>(c.mode)); }
      auto op = std::make_shared<bxdecay0::momentum_direction_lock_event_op>(false);
      op->set(bxdecay0::ELECTRON, 0, 0.1, 0.2, 0.3, false);
      g.add_operation(op);
      SimRandom r(12345); r.begin_op(50000000);
      try { g.initialize(r); bxdecay0::event e; for (int i = 0; i < 3; i++) g.shoot(r, e); std::ostringstream o; g.smart_dump(o, "", ""); e.store(o, bxdecay0::event::STORE_EVENT_TIME); e.print(o, "", ""); g.reset(); }
      catch (std::exception &) {}
    }
    // gA: absent dataset (refusal path), then a small one
    for (int pass = 0; pass < 2; pass++) {
      std::string p = ga_root() + "/data/dbd_gA/v1.0/Se82/g0/tab_ocdf.data";
      if (pass == 1) fs::put(p, ga_dataset("small")); else fs::remove(p);
      bxdecay0::decay0_generator g;
      g.set_decay_category(bxdecay0::decay0_generator::DECAY_CATEGORY_DBD); g.set_decay_isotope("Se82"); g.set_decay_dbd_level(0);
      g.set_decay_dbd_mode(bxdecay0::DBDMODE_2NUBB_GA_G0);
      SimRandom r(3); r.begin_op(1000000);
      try { g.initialize(r); bxdecay0::event e; g.shoot(r, e); } catch (std::exception &) {}
    }
    {
      std::string p = fs::root() + "/warm/a.d0t";
      fs::put(p, "0 0 Co60\n1\n3  0 0.1 0.2 0.3\n\n");
      try { bxdecay0::event_reader::config_type c; c.event_files = {p}; bxdecay0::event_reader rd(c, 0); bxdecay0::event e; while (rd.has_next_event()) rd.load_next_event(e); } catch (std::exception &) {}
    }
    (void)std::stod("1.5e3"); (void)std::stoi("12");
    fs::reset();
  } catch (...) {}
}

void suite_process_init(bool warm)
{
  // constant for the life of the process: dbd_gA::env_data_base_dir() keeps the last value it saw
  setenv("BXDECAY0_DBD_GA_DATA_DIR", ga_root().c_str(), 1);
  if (warm) warm_up();
}

} // namespace sim
