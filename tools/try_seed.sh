#!/bin/bash
# tools/try_seed.sh <patch> <PROP> [tier] : apply a seeded change to /repo, run the registered check, undo.
P=$1; PROP=$2; TIER=${3:-quick}
cd /repo && test -z "$(git status --porcelain --untracked-files=no)" || { echo "TRY: /repo has uncommitted changes"; exit 2; }
git apply $P || { echo "TRY: patch does not apply to /repo"; exit 2; }
cd /verif && bin/check $PROP $TIER > /tmp/try_$PROP.log 2>&1; RC=$?
git -C /repo checkout -- .
echo "TRY: $PROP $TIER exit=$RC"; grep -E "^(VIOLATION|KNOWN-FINDING|CHECK-BROKEN|HARNESS|OK )" /tmp/try_$PROP.log | cut -c1-250; grep -A2 "^VIOLATION" /tmp/try_$PROP.log | grep -v "^VIOLATION" | cut -c1-400 | head -6
exit $RC
