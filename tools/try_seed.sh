#!/bin/bash
# tools/try_seed.sh <patch> <PROP> [tier] : run the registered check of PROP against a seeded change.
# Default: on a private scratch worktree of /repo's HEAD with its own build directory (/repo untouched).
# With BASE=<commit>: the scratch worktree is taken at that commit instead of HEAD (a seed superseded by a later fix).
# With IN_REPO=1: apply to /repo itself (git -C /repo apply), run, undo (git -C /repo checkout -- .).
P=$(readlink -f $1); PROP=$2; TIER=${3:-quick}
V=$(cd "$(dirname "$0")/.." && pwd)
if [ "${IN_REPO:-0}" = 1 ]; then
  cd /repo && test -z "$(git status --porcelain --untracked-files=no)" || { echo "TRY: /repo has uncommitted changes"; exit 2; }
  git apply $P || { echo "TRY: patch does not apply to /repo"; exit 2; }
  (cd $V && BXSIM_EVIDENCE_DIR=/tmp/try_evidence BXSIM_REPLAY_DIR=$V/replays bin/check $PROP $TIER > ${TRYLOG:-/tmp/try_$PROP.log} 2>&1); RC=$?
  git -C /repo checkout -- .
else
  SCR=$(mktemp -d ${TMPDIR:-/tmp}/bxtry.XXXXXX); R=$SCR/repo
  git -C /repo worktree add -q --detach $R ${BASE:-HEAD} || exit 2
  trap "git -C /repo worktree remove --force $R; rm -rf $SCR" EXIT
  (cd $R && git apply $P) || { echo "TRY: patch does not apply"; exit 2; }
  (cd $V && BXSIM_REPO=$R BXSIM_BUILD=$SCR/build BXSIM_EVIDENCE_DIR=$SCR/evidence BXSIM_REPLAY_DIR=$SCR/replays bin/check $PROP $TIER > ${TRYLOG:-/tmp/try_$PROP.log} 2>&1); RC=$?
fi
echo "TRY: $PROP $TIER exit=$RC"; grep -E "^(VIOLATION|KNOWN-FINDING|CHECK-BROKEN|HARNESS|OK )" ${TRYLOG:-/tmp/try_$PROP.log} | cut -c1-250; grep -A2 "^VIOLATION" ${TRYLOG:-/tmp/try_$PROP.log} | grep -v "^VIOLATION" | cut -c1-400 | head -6
exit $RC
