#!/bin/bash
# tools/selfcheck.sh [runs-per-suite] : determinism self-test (not a registered check).
# Every suite is executed twice over the same run indices, with different worker counts (so that the
# same plan meets different process histories), in every flavour that suite is used in; the per-run
# trace digests must be identical. Prints DETERMINISTIC or the differing runs.
V=$(cd "$(dirname "$0")/.." && pwd); B=${BXSIM_BUILD:-$V/build}; N=${1:-3000}
export ASAN_OPTIONS="exitcode=77:detect_leaks=0:allocator_may_return_null=1:log_path=$B/san/log" UBSAN_OPTIONS="exitcode=77:halt_on_error=1" TSAN_OPTIONS="exitcode=78:halt_on_error=0:log_path=$B/san/log"
mkdir -p $B/selfcheck $B/san; rc=0
run() { # flavour suite prop runs
  for w in 3 11; do
    $B/bxsim-$1 check --prop $3 --suites $2 ${FRESH:+--fresh 1} --seed ${SEED:-4242} --runs $4 --budget-s 100000 --workers $w --det-samples 0 --trace-out $B/selfcheck/$1-$2-$w.txt --replay-dir $B/selfcheck/replays > $B/selfcheck/$1-$2-$w.log 2>&1
    sort $B/selfcheck/$1-$2-$w.txt > $B/selfcheck/$1-$2-$w.sorted
  done
  if cmp -s $B/selfcheck/$1-$2-3.sorted $B/selfcheck/$1-$2-11.sorted; then echo "DETERMINISTIC $1/$2: $(wc -l < $B/selfcheck/$1-$2-3.sorted) runs, identical digests with 3 and 11 workers";
  else echo "NONDETERMINISTIC $1/$2:"; diff $B/selfcheck/$1-$2-3.sorted $B/selfcheck/$1-$2-11.sorted | head -5; rc=1; fi
}
run plain gen-hist C07 $N; run plain gen-sweep C04 $((N/4)); run asan gen-hist C08 $((N/2)); run asan proto C09 $N; run asan reader C11 $N
run plain gen-plumbing C07 $N; run plain gen-plumbing C04 $N; run asan gen-plumbing C08 $((N/2))
run asan run C13 $N; run asan files-events C15 $N; run asan files-ga C15 $N; run asan files-lists C15 $((N/20)); run asan threads C12 $((N/6)); run tsan threads C12 $((N/15)); run tsan threads-twins C12 $((N/8))
FRESH=1; run asan threads C12 $((N/6)); run tsan threads C12 $((N/15))
exit $rc
