#!/bin/bash
# tools/confirm_seed.sh <worktree> <seeddir> : independent confirmation of a seeded change.
# applies patch -> build -> ctest (must pass) -> demo (must FAIL); reverts -> build -> demo (must PASS)
WT=$1; SD=$(readlink -f $2); L=/tmp/confirm_$(basename $SD)
cd $WT || exit 2
git checkout -q -- . ; git apply --check $SD/patch.diff || { echo "CONFIRM: patch does not apply"; exit 2; }
git apply $SD/patch.diff
cmake --build _build -j8 > ${L}_build.log 2>&1 || { echo "CONFIRM: build failed with patch"; git checkout -q -- .; exit 2; }
ctest --test-dir _build -j8 --timeout 900 > ${L}_ctest.log 2>&1; T=$?
echo "CONFIRM: ctest with patch exit=$T ($(grep -c Passed ${L}_ctest.log) passed)"
(cd $SD && BXDECAY0_RESOURCE_DIR=$WT/resources timeout 600 bash ./run.sh > ${L}_demo_with.log 2>&1); W=$?
echo "CONFIRM: demo with patch exit=$W (expect non-zero)"
git checkout -q -- .
cmake --build _build -j8 > ${L}_build2.log 2>&1
(cd $SD && BXDECAY0_RESOURCE_DIR=$WT/resources timeout 600 bash ./run.sh > ${L}_demo_without.log 2>&1); O=$?
echo "CONFIRM: demo without patch exit=$O (expect 0)"
if [ $T -eq 0 ] && [ $W -ne 0 ] && [ $O -eq 0 ]; then echo "CONFIRM: OK"; exit 0; else echo "CONFIRM: NOT CONFIRMED"; exit 1; fi
