#!/bin/bash
# tools/try_all_seeds.sh [name-filter] : regression over seeded/*<filter>*: every kept seeded change must still turn its check red.
# One private worktree and build directory for all of them (/repo untouched). Results: seeded/RESULTS.txt
V=$(cd "$(dirname "$0")/.." && pwd)
SCR=$(mktemp -d ${TMPDIR:-/tmp}/bxseeds.XXXXXX)
if [ -n "$VP_RUN_REPO" ]; then R=$VP_RUN_REPO; OWN=0; else R=$SCR/repo; git -C /repo worktree add -q --detach $R HEAD || exit 2; OWN=1; fi
export BXSIM_REPO=$R BXSIM_VERIF=$V BXSIM_BUILD=$SCR/build BXSIM_EVIDENCE_DIR=$SCR/evidence BXSIM_REPLAY_DIR=$SCR/replays
trap '[ $OWN = 1 ] && git -C /repo worktree remove --force $R; rm -rf $SCR' EXIT
$V/bin/build plain asan tsan || exit 2
: > $V/seeded/RESULTS.txt.new
for sd in $V/seeded/*${1}*/; do
  n=$(basename $sd); prop=${n%%-*}
  [ -f $sd/superseded ] && { echo "$n $prop SUPERSEDED $(head -1 $sd/superseded)" | tee -a $V/seeded/RESULTS.txt.new; continue; }
  (cd $R && patch -p1 -s --dry-run < $sd/patch.diff >/dev/null 2>&1) || { echo "$n $prop DOES-NOT-APPLY" | tee -a $V/seeded/RESULTS.txt.new; continue; }
  (cd $R && patch -p1 -s < $sd/patch.diff)
  (cd $V && BXSIM_BUDGET_SCALE=${SCALE:-1} bin/check $prop quick > $SCR/log.$n 2>&1); rc=$?
  (cd $R && patch -p1 -R -s < $sd/patch.diff)
  cls=$(grep -A1 '^VIOLATION' $SCR/log.$n | grep 'class=' | head -1 | sed 's/^ *//' | cut -c1-120)
  echo "$n $prop exit=$rc $cls" | tee -a $V/seeded/RESULTS.txt.new
done
if [ -z "$1" ]; then mv $V/seeded/RESULTS.txt.new $V/seeded/RESULTS.txt; else mv $V/seeded/RESULTS.txt.new $V/seeded/RESULTS.partial.txt; fi
