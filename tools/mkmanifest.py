#!/usr/bin/env python3
"""Regenerates /verif/MANIFEST.json from the table below (kept in one place so the manifest stays valid)."""
import json, subprocess

CLAIMED = {
    "C04": dict(level="exploration", ref="DESIGN.md section 3 (C04)",
                technique="deterministic simulation: seeded sweeps over all configurations with tail-steered deviates (fault injection at the randomness seam), step-budget watchdog",
                text="Seeded simulated runs over all 69 background names and every catalogued accepted double-beta triple (some with an energy window); the simulator is the "
                     "deviate source, steers sparse draws into the extreme tails, counts deviates per shot against a step budget (bounded liveness) and evaluates the "
                     "well-formedness predicate on every event. Sampling, not enumeration; weakest fit to the technique (a shot is a function of configuration and deviates) and said so in DESIGN.md.",
                note="Trusted: g++ 12, the catalogue of accepted triples (data/dbd_catalogue.txt, regenerable with `bxsim catalogue`). gA modes excluded (datasets not shipped). One known finding (Pa231 NaN momentum)."),
    "C07": dict(level="exploration", ref="DESIGN.md section 3 (C07)",
                technique="deterministic simulation: seeded API histories with injected faults, checked op by op against an executable reference model (the canonical history)",
                text="Seeded interleaved API histories over a pool of generator instances and caller-owned event objects (fresh, reused, pre-filled, shrunk, copied), with cancellation, "
                     "allocation-failure and steering faults attached to operations; every successful shot is compared field by field with the canonical history for the same "
                     "(configuration, deviate stream); objects are also re-configured in place after a rejected initialise, and post-generation operation objects are caller-owned and shared between generators. "
                     "A companion suite drives the low-level genbbsub entry point directly with one caller-owned parameter block through several configurations and compares with a new block. "
                     "A second batch runs every history in a freshly forked process and takes the reference from a process forked before the run touched the library (nothing happened before). "
                     "Violations are shrunk and replayed in a fresh process (with the worker's history as a prelude when process-wide state is involved) before being reported.",
                note="Trusted: the reference is the SUT itself in the canonical history (fresh instance, fresh event), so a defect that affects every history identically is invisible here (C01/C02 territory)."),
    "C08": dict(level="exploration", ref="DESIGN.md section 3 (C08)",
                technique="deterministic simulation of the C07/C04 plan space in the ASan+UBSan+_GLIBCXX_ASSERTIONS flavour; a sanitizer report is the violation",
                text="The same seeded histories and sweeps, executed with AddressSanitizer, UndefinedBehaviorSanitizer (-fno-sanitize-recover) and libstdc++ assertions; "
                     "event-object reuse patterns and injected faults are what make dangling pointers and stale state reachable. A worker killed by a report is the suspect; the plan is shrunk and replayed.",
                note="Intra-object overflows (spthe1 into spthe2 inside bbpars) are invisible to ASan; MSan is not used; GSL and libstdc++ are not instrumented."),
    "C09": dict(level="exploration", ref="DESIGN.md section 3 (C09)", replay_flavour="asan",
                technique="deterministic simulation: seeded API call sequences with injected initialise failures (I/O faults on gA data, cancellation, allocation failure), checked call by call against an executable reference state machine",
                text="Seeded client sessions of public API calls on a generator (plus a bystander instance), every call checked against a small executable protocol model: which calls must be refused, "
                     "what every getter reports after every call, that a failed initialise (invalid configuration, absent or torn gA dataset on the simulated disk, EIO, cancellation inside initialise, "
                     "allocation failure) leaves the instance un-initialised and as usable as a pristine one, and that after reset the instance reports defaults and yields the events of a fresh instance. "
                     "Two further batches: every call sequence of length <= 4 (thorough: <= 5) over a 15-call alphabet is enumerated once; and, in freshly forked processes, the first use of the lazily "
                     "loaded catalogue lists happens under an open/read fault, after which the same object and a brand-new one must initialise and agree.",
                note="Acceptance of a configuration is not re-derived (that frontier is C06): the model asks a pristine instance in the same durable environment. is_debug() and has_decay_version() after an "
                     "initialise attempt are deliberately not asserted; reset() of a never-initialised generator keeps its configuration by design and is only counted. Sampling, not the exhaustive enumeration the property's quantifier text mentions."),
    "C11": dict(level="exploration", ref="DESIGN.md section 3 (C11)", replay_flavour="asan",
                technique="deterministic simulation: writer -> simulated disk (seeded partition, read faults) -> reader driven by an interleaved client, checked step by step against a sequential reference model of the stream and window",
                text="Seeded runs of a writer, a simulated disk that partitions the record stream into files (empty and whitespace-only files anywhere) and injects short reads, EINTR, EIO and missing files, "
                     "and a client interleaving has_next_event/load_next_event; each call is checked against a sequential model of the concatenated stream and the (start,max) window, and every "
                     "delivered event is compared textually at 15 significant digits with what was written.",
                note="15-digit equality is decided by re-storing the loaded event with the library's own store(); values whose 15-digit decimal is not representable (above ~1.797e308) are not generated. "
                     "After an injected EIO/ENOENT the reader may fail but must never deliver a wrong event. Storage corruption of the files is C15."),
    "C15": dict(level="fault_enumeration", ref="DESIGN.md section 3 (C15)", replay_flavour="asan",
                technique="deterministic simulation with storage-fault injection: valid files from the real writers are torn, flipped, zeroed, dropped or duplicated on a simulated disk (plus in-flight EIO/short reads), then loaded and used under ASan/UBSan with allocation and read-call accounting",
                text="Each run damages a valid, writer-produced file on the simulated disk with 1-2 storage faults and hands it to the loader, then uses what was loaded. Oracle: an exception, or a load "
                     "whose results satisfy the loader's own predicate (event::is_valid), and always no signal, no sanitizer report, bounded read calls and bounded allocation. The thorough tier "
                     "enumerates every truncation offset of the sample event file and gA tables; the other fault kinds (flip, overwrite, zeroed/dropped/duplicated block or line, stale-tail splice, one field overwritten by its neighbour or by an edge value, empty) are seeded samples; "
                     "gA objects are re-loaded after a rejected table and must then behave like pristine ones.",
                note="Not grammar-based fuzzing of arbitrary byte strings: only the storage-fault vocabulary over valid files, plus one field-granular overwrite (said in DESIGN.md). The fourth anchor (command-line parser) has no file; malformed command lines are exercised by C13."),
    "C13": dict(level="fault_enumeration", ref="DESIGN.md section 3 (C13)", replay_flavour="asan",
                technique="deterministic simulation: the program's real main() in-process over a simulated file system and clock; every kill point of every run enumerated as a snapshot after each write(2) and inside writes; write-fault injection; reference model written against the public API",
                text="The real bxdecay0-run main(), parser and driver run in-process with argv from a seeded plan, output on the simulated disk and time() simulated. Checked: byte equality of the event file "
                     "with a reference written against the public API; byte-identical reruns under another epoch and write chunking; companion key/values; at every kill point of every run (after each "
                     "write, at seeded offsets inside each, and at the truncation of an existing file) that the completion marker implies a complete event file - also when the basename already holds the files of an "
                     "earlier complete run; the same implication under ENOSPC/EIO/open failures and when a catchable SIGTERM/SIGINT is delivered to a handler the program installed; refused lines (incl. near-miss spellings of every option) leave no event record; no crash, "
                     "sanitizer report or libstdc++ assertion.",
                note="Kill points are enumerated exhaustively per explored run (fault_enumeration); the command-line space is sampled. fsync/rename-style durability is out of scope: the program does not use them and the property does not ask."),
    "C12": dict(level="exploration", ref="DESIGN.md section 3 (C12)", replay_flavour="asan",
                technique="deterministic simulation of thread schedules: real threads parked on futexes and released one at a time by a seeded scheduler at intercepted GSL/mutex/deviate points, injected quadrature tolerance misses, history checked by vector-clock race detection, solo-run equivalence and a TSan-invisible hand-off that lets ThreadSanitizer report logical races",
                text="2-3 clients with their own generators (decay0_generator, or a directly used dbd_gA instance) run on real threads whose interleaving is decided by the plan (preemptions biased into the GSL error-handler save/disable..restore window), "
                     "with real and injected quadrature tolerance misses. Checked on the recorded history: the application's base GSL handler is never invoked during a quadrature (no schedule-dependent abort), "
                     "each client's events equal its solo run bit for bit, no happens-before race on the process-wide handler, no ThreadSanitizer report in the tsan flavour, no deadlock. Two of the four batches run every "
                     "plan in a freshly forked process with the tasks' reads as extra schedule points and __cxa_guard modelled as a lock, so that first use of lazily initialised statics happens under preemption; there the solo reference is also computed in a child forked before any client ran, and a companion suite pairs clients of the same DBD mode and different nuclides. Every violation replays from its plan.",
                note="Schedules are sampled; schedule points are the intercepted GSL, pthread-mutex and deviate calls. TSan cannot see inside libgsl: the handler variable is shadowed. A blocking primitive other than a pthread mutex would show as a harness stall (exit 2)."),
}

NOT_APPLICABLE = {
    "C01": "pure function of (nuclide, deviate sequence) compared across two programs: translation validation, no schedule/fault/history for a simulator to own",
    "C02": "same as C01 for double-beta configurations and toallevents",
    "C03": "pure numeric invariant against tabulated Q-values plus a metamorphic relation across configurations; nothing to interleave or fail",
    "C05": "pure name->scheme mapping and a static comparison of three catalogues",
    "C06": "finite accept/reject grid = exhaustive table enumeration (model checking), no fault or schedule in it",
    "C10": "geometry of one operation on one event: pure function of (event, configuration, deviates)",
    "C14": "sampler/decoder arithmetic on tables: pure functions (loader robustness under storage faults is C15)",
    "C16": "numerical contracts of pure kernels",
    "C17": "pure mapping checked against stand-ins for classes that are not installed; no concurrency, I/O or fault",
}


def main():
    claimed = dict(CLAIMED)
    try:
        import manifest_extra  # optional: later stages add entries here
        claimed.update(manifest_extra.CLAIMED)
    except ImportError:
        pass
    props = [json.loads(l)["id"] for l in open("/verif/properties.jsonl")]
    checks = []
    for pid in props:
        if pid not in claimed:
            continue
        c = claimed[pid]
        checks.append({
            "property_id": pid,
            "quick_cmd": "bin/check %s quick" % pid,
            "thorough_cmd": "bin/check %s thorough" % pid,
            "evidence_file": "/verif/evidence/%s.json" % pid,
            "replay_cmd_template": "build/bxsim-%s replay {path}" % c.get("replay_flavour", "asan" if pid in ("C08",) else "plain"),
            "engine": "bxsim",
            "level_claimed": {"category": c["level"], "text": c["text"], "design_ref": c["ref"]},
            "level_note": c["note"],
            "technique": c["technique"],
        })
    na = [{"property_id": p, "reason": NOT_APPLICABLE.get(p, "not yet covered by a check in this revision (see DESIGN.md)")} for p in props if p not in claimed]
    m = {
        "version": 1,
        "setup_cmd": "bin/build plain asan tsan",
        "hooks": {
            "guard": "BXDECAY0_VERIF",
            "enable": "checks compile /repo's sources themselves with -DBXDECAY0_VERIF (Makefile SUT_DEF, also given to the simulator's own objects so that both see one layout); one source hook: guard cells around bbpars::spthe1/spthe2, poisoned under AddressSanitizer (bb.h, bb.cc); every other seam is the public API, an environment variable or a link-time --wrap",
            "baseline_off_cmd": "cmake -G Ninja -S /repo -B /repo/_build && cmake --build /repo/_build && ctest --test-dir /repo/_build -j8 --timeout 900",
            "source_commits": ["15aefde1e065614f967a84d735a5aff445a92f28", "b01b324c9ab340ea3d1b84da5a4bb19034ba4d8b"],
            "add_only": True,
        },
        "engines": [{"name": "bxsim", "path": "/verif/sim", "serves_properties": [c["property_id"] for c in checks],
                     "kind_free_text": "home-grown deterministic simulator: counter-based PRNG, plan/replay/shrink kernel, SimRandom, SimFS (--wrap file layer), SimClock, SimAlloc, SimSched (real threads parked on futexes) and SimGSL shadow"}],
        "checks": checks,
        "not_applicable": na,
        "notes": "Technique family: deterministic simulation with fault injection. See DESIGN.md. Known findings: known_findings.json.",
    }
    json.dump(m, open("/verif/MANIFEST.json", "w"), indent=1)
    print("MANIFEST.json: %d checks, %d not applicable" % (len(checks), len(na)))


if __name__ == "__main__":
    import sys
    sys.path.insert(0, "/verif/tools")
    main()
