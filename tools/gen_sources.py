#!/usr/bin/env python3
"""Turn cmake's compile_commands.json (configure-only run over /repo's working tree)
into a make fragment listing the translation units of the library and of bxdecay0-run.
The source list is taken from the repository's own CMakeLists.txt, not from a glob, so a
file that upstream does not compile (e.g. Y90.cc) is not compiled here either."""
import json, sys, os, shlex

cfg = sys.argv[1]
out = sys.argv[2]
cc = json.load(open(os.path.join(cfg, "compile_commands.json")))
lib, prog = [], []
std = "c++11"
for c in cc:
    f = c["file"]
    o = c.get("output", "")
    cmd = c.get("command", "")
    if "BxDecay0.dir" in o:
        lib.append(f)
        for tok in shlex.split(cmd):
            if tok.startswith("-std="):
                std = tok[5:]
    elif "bxdecay0-run.dir" in o:
        prog.append(f)
lib.sort()
prog.sort()
tmp = out + ".tmp"
with open(tmp, "w") as fh:
    fh.write("SUT_STD := %s\n" % std)
    fh.write("LIB_SRCS := %s\n" % " ".join(lib))
    fh.write("PROG_SRCS := %s\n" % " ".join(prog))
old = open(out).read() if os.path.exists(out) else None
new = open(tmp).read()
if old != new:
    os.replace(tmp, out)
else:
    os.remove(tmp)
