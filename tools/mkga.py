#!/usr/bin/env python3
"""Produce valid gA datasets with the repository's own writer (resources/data/dbd_gA/tools/mkocdfdata.py)
from synthetic joint p.d.f. tables. The outputs under /verif/data/ga/<name>/ are committed; this script
regenerates them (they are what 'the real writer' produced for the C09/C12/C15 simulations)."""
import os, subprocess, sys, tempfile, shutil, math
TOOL = "/repo/resources/data/dbd_gA/tools/mkocdfdata.py"
OUT = "/verif/data/ga"
SETS = {
    # name: (N, emin, emax, Q, exponent)
    "small":  (8, 0.2, 2.7, 3.0, 2.0),
    "medium": (24, 0.05, 2.90, 2.995, 5.0),
    "steep":  (40, 0.02, 2.98, 3.034, 9.0),
    # the smallest tables the format allows (2 samples is the loaders' lower limit)
    "tiny2":  (2, 0.5, 2.0, 3.0, 1.0),
    "tiny3":  (3, 0.3, 2.4, 3.0, 2.0),
}
for name, (n, emin, emax, q, k) in SETS.items():
    step = (emax - emin) / (n - 1)
    d = tempfile.mkdtemp(prefix="mkga")
    with open(os.path.join(d, "in.pdf"), "w") as f:
        for i in range(n):
            e1 = emin + i * step
            for j in range(n - i):
                e2 = emin + j * step
                rest = max(q - e1 - e2, 0.0)
                p = (e1 + 0.511) * (e2 + 0.511) * rest ** k
                f.write("%.10e %.10e %.10e\n" % (e1, e2, p))
    subprocess.run([sys.executable, TOOL, "in.pdf", "Test", "g0", str(q)], cwd=d, check=True, stdout=subprocess.DEVNULL, stderr=subprocess.DEVNULL)
    os.makedirs(os.path.join(OUT, name), exist_ok=True)
    for fn in ("tab_pdf.data", "tab_ocdf.data"):
        shutil.copy(os.path.join(d, fn), os.path.join(OUT, name, fn))
    shutil.rmtree(d)
    print(name, os.path.getsize(os.path.join(OUT, name, "tab_ocdf.data")), "bytes")
