#!/bin/bash
# tools/thorough_all.sh : every thorough check once, in sequence (about 3 h). Under `vp run --with-repo` it uses the
# snapshots of /verif and /repo; otherwise /verif and /repo themselves.
V=$(cd "$(dirname "$0")/.." && pwd)
if [ -n "$VP_RUN_REPO" ]; then export BXSIM_REPO=$VP_RUN_REPO BXSIM_VERIF=$V BXSIM_BUILD=$V/build BXSIM_EVIDENCE_DIR=$V/evidence-thorough BXSIM_REPLAY_DIR=$V/replays; fi
cd $V
for p in ${@:-C04 C07 C08 C09 C11 C12 C13 C15}; do
  echo "=== $p $(date +%T)"; bin/check $p thorough 2>&1 | grep -v "^FOUND" | tail -8 | cut -c1-400; echo "exit=${PIPESTATUS[0]}"
done
echo ALLDONE
