#!/usr/bin/env python3
"""tools/keep_seed.py <seed-dir> <id> <property> <caught-by> <needs...>  : store a confirmed seeded change under /verif/seeded/<id>/"""
import json, os, shutil, sys
src, sid, prop, caught = sys.argv[1:5]
needs = " ".join(sys.argv[5:])
dst = "/verif/seeded/" + sid
os.makedirs(dst, exist_ok=True)
for f in ("patch.diff", "demo.cc", "run.sh", "README.txt"):
    if os.path.exists(os.path.join(src, f)):
        shutil.copy(os.path.join(src, f), os.path.join(dst, f))
meta = {
    "id": sid, "property": prop, "origin": "independent sub-agent given only the property text and a scratch worktree",
    "needs_to_manifest": needs,
    "confirmed": "tools/confirm_seed.sh: patch applies, builds, ctest 19/19 pass with the patch, demo fails with the patch and passes without it",
    "checks_run": "tools/try_seed.sh %s/patch.diff %s quick (git -C /repo apply; bin/check; git -C /repo checkout -- .)" % (dst, prop),
    "result": caught,
}
json.dump(meta, open(os.path.join(dst, "meta.json"), "w"), indent=1)
print("kept", dst)
