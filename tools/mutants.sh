#!/bin/bash
# tools/mutants.sh [name-filter] : sensitivity self-test (NOT a registered check).
# Every /verif/mutants/<name>.diff is applied to /repo, the quick check of the property named in
# <name>.meta is run with a reduced budget, and /repo is restored. Expected: every mutant turns its
# check red (exit 1). Results are appended to /verif/mutants/RESULTS.txt.
cd /repo || exit 2
test -z "$(git status --porcelain --untracked-files=no)" || { echo "/repo has uncommitted changes"; exit 2; }
OUT=/verif/mutants/RESULTS.txt
: > $OUT.new
for d in /verif/mutants/*${1}*.diff; do
  n=$(basename $d .diff); prop=$(grep -o 'property=C[0-9]*' /verif/mutants/$n.meta | cut -d= -f2)
  if ! git apply --check $d 2>/dev/null; then echo "$n $prop DOES-NOT-APPLY" | tee -a $OUT.new; continue; fi
  git apply $d
  t0=$(date +%s)
  (cd /verif && BXSIM_BUDGET_SCALE=${SCALE:-0.4} bin/check $prop quick > /tmp/mutant_$n.log 2>&1); rc=$?
  git checkout -q -- .
  cls=$(grep -A1 '^VIOLATION' /tmp/mutant_$n.log | grep 'class=' | head -1 | sed 's/^ *//' | cut -c1-120)
  echo "$n $prop exit=$rc $(( $(date +%s) - t0 ))s $cls" | tee -a $OUT.new
done
mv $OUT.new $OUT
