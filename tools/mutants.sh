#!/bin/bash
# tools/mutants.sh [name-filter] : sensitivity self-test (NOT a registered check).
# Works on a PRIVATE copy of the repository (a scratch git worktree of /repo's HEAD under $TMPDIR, or
# $VP_RUN_REPO under `vp run --with-repo`), with its own build directory: /repo is never touched.
# Every mutants/<name>.diff is applied to the copy, the quick check of the property named in
# <name>.meta is run with a reduced budget (SCALE, default 0.4), and the copy is restored.
# Expected: every mutant turns its check red (exit 1). Results: mutants/RESULTS.txt of this /verif.
V=$(cd "$(dirname "$0")/.." && pwd)
SCR=$(mktemp -d ${TMPDIR:-/tmp}/bxmut.XXXXXX)
if [ -n "$VP_RUN_REPO" ]; then R=$VP_RUN_REPO; OWN=0; else R=$SCR/repo; git -C /repo worktree add -q --detach $R HEAD || exit 2; OWN=1; fi
export BXSIM_REPO=$R BXSIM_VERIF=$V BXSIM_BUILD=$SCR/build BXSIM_EVIDENCE_DIR=$SCR/evidence BXSIM_REPLAY_DIR=$SCR/replays
cleanup() { [ $OWN = 1 ] && git -C /repo worktree remove --force $R; rm -rf $SCR; }
trap cleanup EXIT
$V/bin/build plain asan tsan || { echo "baseline build of the copy failed"; exit 2; }
OUT=$V/mutants/RESULTS.txt
: > $OUT.new
for d in $V/mutants/*${1}*.diff; do
  n=$(basename $d .diff); prop=$(grep -o 'property=C[0-9]*' $V/mutants/$n.meta | cut -d= -f2)
  [ -f $V/mutants/$n.masked ] && { echo "$n $prop MASKED $(head -1 $V/mutants/$n.masked)" | tee -a $OUT.new; continue; }
  if ! (cd $R && patch -p1 -s --dry-run < $d >/dev/null 2>&1); then echo "$n $prop DOES-NOT-APPLY" | tee -a $OUT.new; continue; fi
  (cd $R && patch -p1 -s < $d)
  t0=$(date +%s)
  (cd $V && BXSIM_BUDGET_SCALE=${SCALE:-0.4} bin/check $prop quick > $SCR/log.$n 2>&1); rc=$?
  (cd $R && patch -p1 -R -s < $d)
  cls=$(grep -A1 '^VIOLATION' $SCR/log.$n | grep 'class=' | head -1 | sed 's/^ *//' | cut -c1-120)
  [ $rc = 2 ] && cls="$cls $(grep -E 'BUILD-FAILED|HARNESS|BROKEN' $SCR/log.$n | head -1 | cut -c1-100)"
  echo "$n $prop exit=$rc $(( $(date +%s) - t0 ))s $cls" | tee -a $OUT.new
done
if [ -z "$1" ]; then mv $OUT.new $OUT; else cat $OUT.new >> $OUT.partial; rm -f $OUT.new; fi
