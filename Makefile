# Builds the deterministic simulator (bxsim) against /repo's *current working tree*.
#   make FLAVOURS="plain asan tsan"        (default: all three)
# Objects are rebuilt only when the sources (or anything they include) changed (-MMD).
REPO  ?= /repo
V     := $(abspath $(dir $(lastword $(MAKEFILE_LIST))))
B     ?= $(V)/build
CFG   := $(B)/cfg
FLAVOURS ?= plain asan tsan
GUARD := BXDECAY0_VERIF

-include $(CFG)/sources.mk

CXX := g++
CC  := gcc

SAN_plain :=
SAN_asan  := -fsanitize=address,undefined,float-cast-overflow -fno-sanitize-recover=all -D_GLIBCXX_ASSERTIONS -D_GLIBCXX_SANITIZE_VECTOR
SAN_tsan  := -fsanitize=thread
OPT_plain := -O2
OPT_asan  := -O1
OPT_tsan  := -O1

SUT_INC := -I$(REPO)/bxdecay0 -I$(CFG)/bxdecay0 -I$(REPO) -I$(CFG)
SUT_DEF := -DENABLE_BINRELOC -D$(GUARD)
COMMON  := -g -fno-omit-frame-pointer -MMD -MP -pthread

WRAP_FS   := fopen64 fopen fclose read write writev time open open64 close
WRAP_GSL  := gsl_set_error_handler gsl_set_error_handler_off gsl_integration_qng
# guarded tables (sim/guard_tables.cc): the interpolation tables of decay0_divdif re-homed into tight heap blocks, ASan flavour only
WRAP_TAB  := _ZN8bxdecay013decay0_divdifEPKdS1_idi
WRAP_PTH  := pthread_mutex_lock pthread_mutex_unlock pthread_mutex_trylock __cxa_guard_acquire __cxa_guard_release __cxa_guard_abort
wrapflags = $(foreach s,$(1),-Wl,--wrap=$(s))

LINK_plain := -static-libstdc++ $(call wrapflags,$(WRAP_FS) $(WRAP_GSL) $(WRAP_PTH))
LINK_asan  := -static-libstdc++ $(call wrapflags,$(WRAP_FS) $(WRAP_GSL) $(WRAP_PTH) $(WRAP_TAB))
LINK_tsan  := $(call wrapflags,$(WRAP_GSL) $(WRAP_PTH))

SIM_SRCS := $(sort $(wildcard $(V)/sim/*.cc))

# $(1)=flavour
define FLAVOUR_RULES
SUTOBJ_$(1) := $$(foreach s,$$(LIB_SRCS) $$(PROG_SRCS),$(B)/$(1)/sut/$$(subst /,_,$$(patsubst $(REPO)/%,%,$$(patsubst $(CFG)/%,cfg/%,$$(s)))).o)
SIMOBJ_$(1) := $$(patsubst $(V)/sim/%.cc,$(B)/$(1)/sim/%.o,$$(SIM_SRCS))
$(B)/bxsim-$(1): $$(SUTOBJ_$(1)) $$(SIMOBJ_$(1))
	@echo "LINK $$@"
	@$(CXX) $$(SAN_$(1)) -pthread -o $$@.tmp $$^ $$(LINK_$(1)) -lgsl -lgslcblas -ldl && mv $$@.tmp $$@
$(B)/$(1)/sim/%.o: $(V)/sim/%.cc $(V)/Makefile
	@mkdir -p $$(dir $$@)
	@$(CXX) -std=c++17 $$(OPT_$(1)) $$(if $$(filter %/sched.cc,$$<),$$(filter-out -fsanitize=thread,$$(SAN_$(1))),$$(SAN_$(1))) $(COMMON) $(SUT_INC) $(SUT_DEF) -I$(REPO)/programs -DSIM_FLAVOUR_$(1)=1 -DSIM_FLAVOUR_NAME='"$(1)"' -c $$< -o $$@
-include $$(SUTOBJ_$(1):.o=.d) $$(SIMOBJ_$(1):.o=.d)
endef
$(foreach f,$(FLAVOURS),$(eval $(call FLAVOUR_RULES,$(f))))

# $(1)=flavour $(2)=source
define SUT_RULE
$(B)/$(1)/sut/$(subst /,_,$(patsubst $(REPO)/%,%,$(patsubst $(CFG)/%,cfg/%,$(2)))).o: $(2) $(V)/Makefile
	@mkdir -p $$(dir $$@)
	@$(if $(filter %.c,$(2)),$(CC),$(CXX) -std=$(SUT_STD)) $$(OPT_$(1)) $$(SAN_$(1)) $(COMMON) $(SUT_INC) $(SUT_DEF) $(if $(filter %bxdecay0-run.cxx,$(2)),-Dmain=bxdecay0_run_main) -c $$< -o $$@
endef
$(foreach f,$(FLAVOURS),$(foreach s,$(LIB_SRCS) $(PROG_SRCS),$(eval $(call SUT_RULE,$(f),$(s)))))

all: $(foreach f,$(FLAVOURS),$(B)/bxsim-$(f))
.PHONY: all
.DEFAULT_GOAL := all
